(* C01, part 2: the definitions generated from pyrex/ray_tracing.py (Gen_ray.v) are tied to the
   closed forms of C01_calc.v; the property clauses are stated on the generated definitions. *)
From Coq Require Import Reals List Bool Lra Lia ZArith.
From Coquelicot Require Import Coquelicot.
From PyrexLib Require Import RealPrims RayPrims.
From PyrexGen Require Import Gen_ice Gen_ray.
From PyrexProofs Require Import C16_proofs C01_calc.
Import ListNotations.
Open Scope R_scope.

(* the exponential profile of an ice record, n(z) = n0 - k exp(a z) (= C16_proofs.profile) *)
Definition nzs (s : Ice) (z : R) : R := nz (Ice_n0 s) (Ice_k s) (Ice_a s) z.
Definition good (s : Ice) : Prop := 0 < Ice_a s /\ 0 < Ice_k s.

Lemma nzs_profile s z : nzs s z = profile s z.
Proof. reflexivity. Qed.

Lemma isclose_beta_false b : SPath_beta_tolerance < b -> isclose b 0 1e-5 SPath_beta_tolerance = false.
Proof.
  unfold SPath_beta_tolerance, isclose. intros H. apply Rleb_false.
  rewrite Rminus_0_r, Rabs_R0, Rabs_right; lra.
Qed.

Lemma isclose_beta_true b : Rabs b <= SPath_beta_tolerance -> isclose b 0 1e-5 SPath_beta_tolerance = true.
Proof.
  unfold SPath_beta_tolerance, isclose. intros H. apply Rleb_true.
  rewrite Rminus_0_r, Rabs_R0. lra.
Qed.

Lemma beta_tolerance_pos : 0 < SPath_beta_tolerance.
Proof. unfold SPath_beta_tolerance. lra. Qed.

(* ---------------------------------------------------------------- generated = closed form *)
Lemma gen_int_terms s b z : good s -> b <= nzs s z -> 0 < b ->
  SPath_int_terms z b s =
    (al (Ice_n0 s) b, nzs s z, ga (Ice_n0 s) (Ice_k s) (Ice_a s) b z,
     lg1 (Ice_n0 s) (Ice_k s) (Ice_a s) b z, lg2 (Ice_n0 s) (Ice_k s) (Ice_a s) b z).
Proof.
  intros [Ha Hk] Hn Hb.
  pose proof (nz_lt_n0 (Ice_n0 s) (Ice_k s) (Ice_a s) Hk z) as Hlt.
  unfold SPath_int_terms, nzs, lg1, lg2, ga, al in *.
  cbv zeta.
  match goal with |- context [Rltb ?g 0] => destruct (Rltb g 0) eqn:E end.
  - apply Rltb_true in E. exfalso. unfold nz in *. nra.
  - fold (nz (Ice_n0 s) (Ice_k s) (Ice_a s) z).
    set (n := nz (Ice_n0 s) (Ice_k s) (Ice_a s) z) in *.
    assert (Hag : 0 <= (Ice_n0 s ^ 2 - b ^ 2) * (n ^ 2 - b ^ 2)) by (apply Rmult_le_pos; nra).
    assert (Hd : Ice_n0 s * n - b ^ 2 + sqrt ((Ice_n0 s ^ 2 - b ^ 2) * (n ^ 2 - b ^ 2)) <> 0).
    { pose proof (sqrt_pos ((Ice_n0 s ^ 2 - b ^ 2) * (n ^ 2 - b ^ 2))). nra. }
    rewrite (log1_stable_gen (Ice_n0 s) n b Hag Hd).
    repeat f_equal; unfold n, nz; ring.
Qed.

Lemma gen_dist_shallow s b z : good s -> SPath_beta_tolerance < b -> b <= nzs s z ->
  SPath_distance_integral z b s false =
    b / sqrt (al (Ice_n0 s) b) * L1 (Ice_n0 s) (Ice_k s) (Ice_a s) b z.
Proof.
  intros G Hb Hn. pose proof beta_tolerance_pos.
  unfold SPath_distance_integral. rewrite gen_int_terms by (assumption || lra).
  rewrite isclose_beta_false by assumption. reflexivity.
Qed.

Lemma gen_plen_shallow s b z : good s -> SPath_beta_tolerance < b -> b <= nzs s z ->
  SPath_pathlen_integral z b s false =
    Ice_n0 s / sqrt (al (Ice_n0 s) b) * L1 (Ice_n0 s) (Ice_k s) (Ice_a s) b z
    + L2 (Ice_n0 s) (Ice_k s) (Ice_a s) b z.
Proof.
  intros G Hb Hn. pose proof beta_tolerance_pos.
  unfold SPath_pathlen_integral. rewrite gen_int_terms by (assumption || lra).
  rewrite isclose_beta_false by assumption. reflexivity.
Qed.

Lemma gen_tof_shallow s b z : good s -> SPath_beta_tolerance < b -> b <= nzs s z ->
  SPath_tof_integral z b s false =
    (sqrt (ga (Ice_n0 s) (Ice_k s) (Ice_a s) b z) / Ice_a s
     + Ice_n0 s * L2 (Ice_n0 s) (Ice_k s) (Ice_a s) b z
     + Ice_n0 s ^ 2 / sqrt (al (Ice_n0 s) b) * L1 (Ice_n0 s) (Ice_k s) (Ice_a s) b z) / speed_of_light.
Proof.
  intros G Hb Hn. pose proof G as [Ha Hk]. pose proof beta_tolerance_pos.
  unfold SPath_tof_integral. rewrite gen_int_terms by (assumption || lra).
  rewrite isclose_beta_false by assumption. cbv iota beta.
  assert (0 < al (Ice_n0 s) b).
  { unfold al. pose proof (nz_lt_n0 (Ice_n0 s) (Ice_k s) (Ice_a s) Hk z). unfold nzs in Hn. nra. }
  assert (0 < sqrt (al (Ice_n0 s) b)) by (apply sqrt_lt_R0; assumption).
  unfold L1, L2, speed_of_light. field. split; lra.
Qed.

(* ---------------------------------------------------------------- antiderivatives (clause 2) *)
Lemma locally_above s b z : good s -> b < nzs s z -> locally z (fun y => b < nzs s y).
Proof.
  intros [Ha Hk] Hn.
  assert (Hc : continuous (nzs s) z).
  { apply (ex_derive_continuous (K:=R_AbsRing) (V:=R_NormedModule) (nzs s) z).
    eexists; apply (nz_derive (Ice_n0 s) (Ice_k s) (Ice_a s)). }
  apply (Hc (fun v => b < v)). apply (open_gt b). exact Hn.
Qed.

Definition tan_theta (s : Ice) (b z : R) : R := b / sqrt (nzs s z ^ 2 - b ^ 2).
Definition sec_theta (s : Ice) (b z : R) : R := nzs s z / sqrt (nzs s z ^ 2 - b ^ 2).
Definition slowness (s : Ice) (b z : R) : R := nzs s z ^ 2 / (speed_of_light * sqrt (nzs s z ^ 2 - b ^ 2)).

Lemma c_nonzero : speed_of_light <> 0.
Proof. unfold speed_of_light. lra. Qed.

Lemma distance_antiderivative_lemma s b z : good s -> SPath_beta_tolerance < b -> b < nzs s z ->
  is_derive (fun y => SPath_distance_integral y b s false) z (tan_theta s b z).
Proof.
  intros G Hb Hn. pose proof G as [Ha Hk]. pose proof beta_tolerance_pos.
  apply is_derive_ext_loc with (fun y => b / sqrt (al (Ice_n0 s) b) * L1 (Ice_n0 s) (Ice_k s) (Ice_a s) b y).
  - generalize (locally_above s b z G Hn). apply filter_imp. intros y Hy.
    symmetry. apply gen_dist_shallow; (assumption || lra).
  - apply dist_cf_derive; (assumption || lra).
Qed.

Lemma pathlen_antiderivative_lemma s b z : good s -> SPath_beta_tolerance < b -> b < nzs s z ->
  is_derive (fun y => SPath_pathlen_integral y b s false) z (sec_theta s b z).
Proof.
  intros G Hb Hn. pose proof G as [Ha Hk]. pose proof beta_tolerance_pos.
  apply is_derive_ext_loc with (fun y => Ice_n0 s / sqrt (al (Ice_n0 s) b) * L1 (Ice_n0 s) (Ice_k s) (Ice_a s) b y
                                        + L2 (Ice_n0 s) (Ice_k s) (Ice_a s) b y).
  - generalize (locally_above s b z G Hn). apply filter_imp. intros y Hy.
    symmetry. apply gen_plen_shallow; (assumption || lra).
  - apply plen_cf_derive; (assumption || lra).
Qed.

Lemma tof_antiderivative_lemma s b z : good s -> SPath_beta_tolerance < b -> b < nzs s z ->
  is_derive (fun y => SPath_tof_integral y b s false) z (slowness s b z).
Proof.
  intros G Hb Hn. pose proof G as [Ha Hk]. pose proof beta_tolerance_pos.
  apply is_derive_ext_loc with
    (fun y => (sqrt (ga (Ice_n0 s) (Ice_k s) (Ice_a s) b y) / Ice_a s
               + Ice_n0 s * L2 (Ice_n0 s) (Ice_k s) (Ice_a s) b y
               + Ice_n0 s ^ 2 / sqrt (al (Ice_n0 s) b) * L1 (Ice_n0 s) (Ice_k s) (Ice_a s) b y) / speed_of_light).
  - generalize (locally_above s b z G Hn). apply filter_imp. intros y Hy.
    symmetry. apply gen_tof_shallow; (assumption || lra).
  - apply tof_cf_derive; (assumption || lra || apply c_nonzero).
Qed.

(* near-vertical branch (|beta| <= beta_tolerance): the code uses the beta = 0 forms *)
Lemma gen_vertical s b z : Rabs b <= SPath_beta_tolerance ->
  SPath_distance_integral z b s false = 0 /\
  SPath_pathlen_integral z b s false = z /\
  SPath_tof_integral z b s false = ((nzs s z - Ice_n0 s) / Ice_a s + Ice_n0 s * z) / speed_of_light.
Proof.
  intros Hb.
  unfold SPath_distance_integral, SPath_pathlen_integral, SPath_tof_integral.
  destruct (SPath_int_terms z b s) as [[[[al' n'] g'] l1'] l2'] eqn:E.
  rewrite isclose_beta_true by assumption.
  repeat split. unfold SPath_int_terms in E. cbv zeta in E. inversion E. reflexivity.
Qed.

Lemma vertical_antiderivative_lemma s z : good s ->
  is_derive (fun y => SPath_distance_integral y 0 s false) z (tan_theta s 0 z) /\
  (0 < nzs s z -> is_derive (fun y => SPath_pathlen_integral y 0 s false) z (sec_theta s 0 z)) /\
  (0 < nzs s z -> is_derive (fun y => SPath_tof_integral y 0 s false) z (slowness s 0 z)).
Proof.
  intros [Ha Hk].
  assert (H0 : Rabs 0 <= SPath_beta_tolerance) by (rewrite Rabs_R0; left; apply beta_tolerance_pos).
  split; [|split].
  - apply (is_derive_ext (fun _ => 0)).
    + intros t. symmetry. apply (gen_vertical s 0 t H0).
    + unfold tan_theta. replace (0 / _) with 0 by (unfold Rdiv; ring). apply @is_derive_const.
  - intros Hp. apply (is_derive_ext (fun y => y)).
    + intros t. symmetry. apply (gen_vertical s 0 t H0).
    + unfold sec_theta. replace (nzs s z ^ 2 - 0 ^ 2) with (nzs s z ^ 2) by ring.
      rewrite sqrt_pow2 by lra. replace (nzs s z / nzs s z) with 1 by (field; lra). apply @is_derive_id.
  - intros Hp. apply (is_derive_ext (fun y => ((nzs s y - Ice_n0 s) / Ice_a s + Ice_n0 s * y) / speed_of_light)).
    + intros t. symmetry. apply (gen_vertical s 0 t H0).
    + unfold slowness. replace (nzs s z ^ 2 - 0 ^ 2) with (nzs s z ^ 2) by ring.
      rewrite sqrt_pow2 by lra.
      replace (nzs s z ^ 2 / (speed_of_light * nzs s z)) with (nzs s z / speed_of_light)
        by (field; split; [lra | apply c_nonzero]).
      apply (tof_vertical_derive (Ice_n0 s) (Ice_k s) (Ice_a s) Ha speed_of_light z c_nonzero).
Qed.

(* deep branch: the ice below z_uniform is integrated as uniform with index n0 *)
Lemma gen_deep s b z :
  SPath_distance_integral z b s true = b * z / sqrt (al (Ice_n0 s) b) /\
  SPath_pathlen_integral z b s true = Ice_n0 s * z / sqrt (al (Ice_n0 s) b) /\
  SPath_tof_integral z b s true =
    Ice_n0 s * (nzs s z + Ice_n0 s * (Ice_a s * z - 1)) / (Ice_a s * sqrt (al (Ice_n0 s) b) * speed_of_light).
Proof.
  unfold SPath_distance_integral, SPath_pathlen_integral, SPath_tof_integral.
  destruct (SPath_int_terms z b s) as [[[[al' n'] g'] l1'] l2'] eqn:E.
  unfold SPath_int_terms in E. cbv zeta in E. inversion E. repeat split.
Qed.

Lemma deep_antiderivative_lemma s b z : good s -> - Ice_n0 s < b < Ice_n0 s ->
  is_derive (fun y => SPath_distance_integral y b s true) z (b / sqrt (Ice_n0 s ^ 2 - b ^ 2)) /\
  is_derive (fun y => SPath_pathlen_integral y b s true) z (Ice_n0 s / sqrt (Ice_n0 s ^ 2 - b ^ 2)) /\
  is_derive (fun y => SPath_tof_integral y b s true) z
            (Ice_n0 s * nzs s z / (speed_of_light * sqrt (Ice_n0 s ^ 2 - b ^ 2))).
Proof.
  intros [Ha Hk] Hb. split; [|split].
  - apply (is_derive_ext (fun y => b * y / sqrt (al (Ice_n0 s) b))).
    + intros t. symmetry. apply (gen_deep s b t).
    + apply dist_deep_derive.
  - apply (is_derive_ext (fun y => Ice_n0 s * y / sqrt (al (Ice_n0 s) b))).
    + intros t. symmetry. apply (gen_deep s b t).
    + apply plen_deep_derive.
  - apply (is_derive_ext (fun y => Ice_n0 s * (nzs s y + Ice_n0 s * (Ice_a s * y - 1)) / (Ice_a s * sqrt (al (Ice_n0 s) b) * speed_of_light))).
    + intros t. symmetry. apply (gen_deep s b t).
    + apply (tof_deep_derive (Ice_n0 s) (Ice_k s) (Ice_a s) Ha speed_of_light b z c_nonzero); lra.
Qed.

(* ---------------------------------------------------------------- uniform-ice correction (clause 4) *)
Lemma uniform_correction_cases z0 z1 zu b s (F : R -> R -> Ice -> bool -> R) :
  (zu <= z0 -> zu <= z1 ->
     SPath_z_int_uniform_correction z0 z1 zu b s F = F z1 b s false - F z0 b s false) /\
  (z0 < zu -> z1 < zu ->
     SPath_z_int_uniform_correction z0 z1 zu b s F = F z1 b s true - F z0 b s true) /\
  (z0 < zu -> zu <= z1 ->
     SPath_z_int_uniform_correction z0 z1 zu b s F =
       (F zu b s true - F z0 b s true) + (F z1 b s false - F zu b s false)) /\
  (zu <= z0 -> z1 < zu ->
     SPath_z_int_uniform_correction z0 z1 zu b s F =
       (F zu b s false - F z0 b s false) + (F z1 b s true - F zu b s true)).
Proof.
  unfold SPath_z_int_uniform_correction. cbv zeta.
  repeat split; intros H0 H1.
  - apply Rltb_false in H0. apply Rltb_false in H1. rewrite H0, H1. reflexivity.
  - apply Rltb_true in H0. apply Rltb_true in H1. rewrite H0, H1. reflexivity.
  - assert (H01 : z0 < z1) by lra. apply Rltb_true in H0. apply Rltb_false in H1. apply Rltb_true in H01.
    rewrite H0, H1, H01. simpl. ring.
  - assert (H01 : z1 <= z0) by lra. apply Rltb_false in H0. apply Rltb_true in H1. apply Rltb_false in H01.
    rewrite H0, H1, H01. simpl. ring.
Qed.

(* the integrand the analytic tracer integrates: uniform index n0 below z_uniform, the
   exponential profile above; G is the glued antiderivative normalised to 0 at z_uniform *)
Section Piecewise.
  Variables (fd fs Fd Fs : R -> R) (zu top : R).
  Hypothesis Hd : forall u v, u <= zu -> v <= zu -> is_RInt fd u v (Fd v - Fd u).
  Hypothesis Hs : forall u v, zu <= u <= top -> zu <= v <= top -> is_RInt fs u v (Fs v - Fs u).

  Definition pw (z : R) : R := if Rltb z zu then fd z else fs z.
  Definition glued (z : R) : R := if Rltb z zu then Fd z - Fd zu else Fs z - Fs zu.

  Lemma pw_deep u v : u <= zu -> v <= zu -> is_RInt pw u v (Fd v - Fd u).
  Proof.
    intros Hu Hv. apply is_RInt_ext with fd; [|apply Hd; assumption].
    intros x Hx. unfold pw.
    assert (x < zu) by (destruct Hx as [_ Hx]; apply Rlt_le_trans with (Rmax u v); [exact Hx | apply Rmax_lub; assumption]).
    apply Rltb_true in H. rewrite H. reflexivity.
  Qed.

  Lemma pw_shallow u v : zu <= u <= top -> zu <= v <= top -> is_RInt pw u v (Fs v - Fs u).
  Proof.
    intros Hu Hv. apply is_RInt_ext with fs; [|apply Hs; assumption].
    intros x Hx. unfold pw.
    assert (zu <= x) by (destruct Hx as [Hx _]; apply Rle_trans with (Rmin u v); [apply Rmin_glb; lra | lra]).
    apply Rltb_false in H. rewrite H. reflexivity.
  Qed.

  Lemma pw_RInt z0 z1 : z0 <= top -> z1 <= top -> zu <= top -> is_RInt pw z0 z1 (glued z1 - glued z0).
  Proof.
    intros T0 T1 Tu. unfold glued.
    destruct (Rltb z0 zu) eqn:E0; destruct (Rltb z1 zu) eqn:E1;
      [apply Rltb_true in E0 | apply Rltb_true in E0 | apply Rltb_false in E0 | apply Rltb_false in E0];
      [apply Rltb_true in E1 | apply Rltb_false in E1 | apply Rltb_true in E1 | apply Rltb_false in E1].
    - replace (Fd z1 - Fd zu - (Fd z0 - Fd zu)) with (Fd z1 - Fd z0) by ring. apply pw_deep; lra.
    - replace (Fs z1 - Fs zu - (Fd z0 - Fd zu)) with ((Fd zu - Fd z0) + (Fs z1 - Fs zu)) by ring.
      apply (is_RInt_Chasles pw z0 zu z1); [apply pw_deep; lra | apply pw_shallow; lra].
    - replace (Fd z1 - Fd zu - (Fs z0 - Fs zu)) with ((Fs zu - Fs z0) + (Fd z1 - Fd zu)) by ring.
      apply (is_RInt_Chasles pw z0 zu z1); [apply pw_shallow; lra | apply pw_deep; lra].
    - replace (Fs z1 - Fs zu - (Fs z0 - Fs zu)) with (Fs z1 - Fs z0) by ring. apply pw_shallow; lra.
  Qed.
End Piecewise.

Lemma correction_is_glued z0 z1 zu b s (F : R -> R -> Ice -> bool -> R) :
  SPath_z_int_uniform_correction z0 z1 zu b s F =
  glued (fun z => F z b s true) (fun z => F z b s false) zu z1
  - glued (fun z => F z b s true) (fun z => F z b s false) zu z0.
Proof.
  destruct (uniform_correction_cases z0 z1 zu b s F) as (C1 & C2 & C3 & C4).
  unfold glued.
  destruct (Rltb z0 zu) eqn:E0; destruct (Rltb z1 zu) eqn:E1;
    [apply Rltb_true in E0 | apply Rltb_true in E0 | apply Rltb_false in E0 | apply Rltb_false in E0];
    [apply Rltb_true in E1 | apply Rltb_false in E1 | apply Rltb_true in E1 | apply Rltb_false in E1].
  - rewrite C2 by assumption. ring.
  - rewrite C3 by assumption. ring.
  - rewrite C4 by assumption. ring.
  - rewrite C1 by assumption. ring.
Qed.

(* ---------------------------------------------------------------- definite integrals (clause 3) *)
Lemma nzs_monotone s z1 z2 : good s -> z1 <= z2 -> nzs s z2 <= nzs s z1.
Proof. intros [Ha Hk]. apply nz_monotone; assumption. Qed.

Lemma above_below_top s b u v top : good s -> b < nzs s top -> u <= top -> v <= top -> b < nzs s (Rmax u v).
Proof.
  intros G Hb Hu Hv. assert (Rmax u v <= top) by (apply Rmax_lub; assumption).
  pose proof (nzs_monotone s _ _ G H). lra.
Qed.

Section Definite.
  Variables (s : Ice) (b zu top : R).
  Hypothesis G : good s.
  Hypothesis Hb : SPath_beta_tolerance < b.
  Hypothesis Htop : b < nzs s top.

  Let Hb0 : 0 < b. Proof. pose proof beta_tolerance_pos. lra. Qed.
  Let Hbn0 : - Ice_n0 s < b < Ice_n0 s.
  Proof. destruct G as [Ha Hk]. pose proof (nz_lt_n0 (Ice_n0 s) (Ice_k s) (Ice_a s) Hk top). unfold nzs in Htop. lra. Qed.

  Lemma le_at s' b' u top' : good s' -> b' < nzs s' top' -> u <= top' -> b' <= nzs s' u.
  Proof. intros G' H Hu. pose proof (nzs_monotone s' _ _ G' Hu). lra. Qed.

  Lemma dist_shallow_RInt u v : u <= top -> v <= top ->
    is_RInt (tan_theta s b) u v (SPath_distance_integral v b s false - SPath_distance_integral u b s false).
  Proof.
    intros Hu Hv. destruct G as [Ha Hk].
    rewrite !gen_dist_shallow by (try assumption; try (split; assumption); eapply le_at; eassumption).
    apply (dist_definite (Ice_n0 s) (Ice_k s) (Ice_a s) Ha Hk b u v Hb0).
    apply (above_below_top s b u v top); assumption.
  Qed.

  Lemma plen_shallow_RInt u v : u <= top -> v <= top ->
    is_RInt (sec_theta s b) u v (SPath_pathlen_integral v b s false - SPath_pathlen_integral u b s false).
  Proof.
    intros Hu Hv. destruct G as [Ha Hk].
    rewrite !gen_plen_shallow by (try assumption; try (split; assumption); eapply le_at; eassumption).
    apply (plen_definite (Ice_n0 s) (Ice_k s) (Ice_a s) Ha Hk b u v Hb0).
    apply (above_below_top s b u v top); assumption.
  Qed.

  Lemma tof_shallow_RInt u v : u <= top -> v <= top ->
    is_RInt (slowness s b) u v (SPath_tof_integral v b s false - SPath_tof_integral u b s false).
  Proof.
    intros Hu Hv. pose proof G as [Ha Hk].
    rewrite !gen_tof_shallow by (try assumption; eapply le_at; eassumption).
    apply (tof_definite (Ice_n0 s) (Ice_k s) (Ice_a s) Ha Hk speed_of_light b u v c_nonzero Hb0).
    apply (above_below_top s b u v top); assumption.
  Qed.

  (* deep side: integrands of the uniform-index model *)
  Definition tan_deep (z : R) : R := b / sqrt (Ice_n0 s ^ 2 - b ^ 2).
  Definition sec_deep (z : R) : R := Ice_n0 s / sqrt (Ice_n0 s ^ 2 - b ^ 2).
  Definition slowness_deep (z : R) : R := Ice_n0 s * nzs s z / (speed_of_light * sqrt (Ice_n0 s ^ 2 - b ^ 2)).

  Lemma dist_deep_RInt u v :
    is_RInt tan_deep u v (SPath_distance_integral v b s true - SPath_distance_integral u b s true).
  Proof.
    apply (is_RInt_derive (fun y => SPath_distance_integral y b s true) tan_deep).
    - intros x _. apply (deep_antiderivative_lemma s b x G Hbn0).
    - intros x _. apply continuous_const.
  Qed.

  Lemma plen_deep_RInt u v :
    is_RInt sec_deep u v (SPath_pathlen_integral v b s true - SPath_pathlen_integral u b s true).
  Proof.
    apply (is_RInt_derive (fun y => SPath_pathlen_integral y b s true) sec_deep).
    - intros x _. apply (deep_antiderivative_lemma s b x G Hbn0).
    - intros x _. apply continuous_const.
  Qed.

  Lemma tof_deep_RInt u v :
    is_RInt slowness_deep u v (SPath_tof_integral v b s true - SPath_tof_integral u b s true).
  Proof.
    apply (is_RInt_derive (fun y => SPath_tof_integral y b s true) slowness_deep).
    - intros x _. apply (deep_antiderivative_lemma s b x G Hbn0).
    - intros x _. unfold slowness_deep.
      apply (ex_derive_continuous (K:=R_AbsRing) (V:=R_NormedModule)
               (fun z => Ice_n0 s * nzs s z / (speed_of_light * sqrt (Ice_n0 s ^ 2 - b ^ 2))) x).
      auto_derive. destruct G as [Ha Hk]. eexists; apply (nz_derive (Ice_n0 s) (Ice_k s) (Ice_a s)).
  Qed.

  (* The value computed by _z_int_uniform_correction IS the integral, from z0 to z1, of the
     tracer's model integrand (uniform n0 below z_uniform, exponential profile above). *)
  Lemma distance_definite_lemma z0 z1 : z0 <= top -> z1 <= top -> zu <= top ->
    is_RInt (pw tan_deep (tan_theta s b) zu) z0 z1
            (SPath_z_int_uniform_correction z0 z1 zu b s SPath_distance_integral).
  Proof.
    intros H0 H1 Hu. rewrite correction_is_glued.
    apply (pw_RInt tan_deep (tan_theta s b) _ _ zu top); try assumption.
    - intros u v _ _. apply dist_deep_RInt.
    - intros u v Hu' Hv'. apply dist_shallow_RInt; lra.
  Qed.

  Lemma pathlen_definite_lemma z0 z1 : z0 <= top -> z1 <= top -> zu <= top ->
    is_RInt (pw sec_deep (sec_theta s b) zu) z0 z1
            (SPath_z_int_uniform_correction z0 z1 zu b s SPath_pathlen_integral).
  Proof.
    intros H0 H1 Hu. rewrite correction_is_glued.
    apply (pw_RInt sec_deep (sec_theta s b) _ _ zu top); try assumption.
    - intros u v _ _. apply plen_deep_RInt.
    - intros u v Hu' Hv'. apply plen_shallow_RInt; lra.
  Qed.

  Lemma tof_definite_lemma z0 z1 : z0 <= top -> z1 <= top -> zu <= top ->
    is_RInt (pw slowness_deep (slowness s b) zu) z0 z1
            (SPath_z_int_uniform_correction z0 z1 zu b s SPath_tof_integral).
  Proof.
    intros H0 H1 Hu. rewrite correction_is_glued.
    apply (pw_RInt slowness_deep (slowness s b) _ _ zu top); try assumption.
    - intros u v _ _. apply tof_deep_RInt.
    - intros u v Hu' Hv'. apply tof_shallow_RInt; lra.
  Qed.
End Definite.

(* ---------------------------------------------------------------- Snell invariant (clause 1) *)
Definition snell_arg (p : Path) (z : R) : R :=
  sin (Path_theta0 p) * SPath_n0 p / AntarcticIce_index (Path_ice p) z.

Lemma snell_theta_lemma p z : -1 <= snell_arg p z <= 1 -> AntarcticIce_index (Path_ice p) z <> 0 ->
  AntarcticIce_index (Path_ice p) z * sin (SPath_theta p z) = SPath_beta p /\
  AntarcticIce_index (Path_ice p) z * sin (BPath_theta p z) = BPath_beta p.
Proof.
  intros Hx Hn. unfold snell_arg in Hx.
  unfold SPath_theta, SPath_beta, BPath_theta, BPath_beta, BPath_n0, BPath_z0 in *.
  unfold SPath_n0, SPath_z0 in *.
  rewrite sin_asin by exact Hx. split; field; exact Hn.
Qed.

Lemma snell_invariant_lemma p :
  -1 <= snell_arg p (SPath_z1 p) <= 1 -> AntarcticIce_index (Path_ice p) (SPath_z1 p) <> 0 ->
  let n_from := AntarcticIce_index (Path_ice p) (SPath_z0 p) in
  let n_to := AntarcticIce_index (Path_ice p) (SPath_z1 p) in
  (n_to * vx (SPath_received_direction p) = n_from * vx (SPath_emitted_direction p) /\
   n_to * vy (SPath_received_direction p) = n_from * vy (SPath_emitted_direction p)) /\
  (n_to * vx (BPath_received_direction p) = n_from * vx (BPath_emitted_direction p) /\
   n_to * vy (BPath_received_direction p) = n_from * vy (BPath_emitted_direction p)).
Proof.
  intros Hx Hn. cbv zeta.
  destruct (snell_theta_lemma p (SPath_z1 p) Hx Hn) as [HS HB].
  unfold SPath_beta, SPath_n0 in HS. unfold BPath_beta, BPath_n0, BPath_z0 in HB.
  unfold SPath_received_direction, SPath_emitted_direction, BPath_received_direction, BPath_emitted_direction.
  unfold BPath_z1, BPath_phi. unfold SPath_z1, SPath_z0, SPath_phi in *.
  destruct (Path_direct p); cbv zeta; unfold vx, vy; simpl; repeat split.
  all: try (rewrite <- Rmult_assoc, HS; ring).
  all: try (rewrite <- Rmult_assoc, HB; ring).
Qed.

(* ---------------------------------------------------------------- direct never turns, indirect turns (clause 5) *)
Lemma index_inside s z : wf s -> lo s <= z <= hi s -> AntarcticIce_index s z = nzs s z.
Proof. intros W H. rewrite (ant_inside s z W H). reflexivity. Qed.

Lemma wf_good s : wf s -> good s.
Proof. intros (Ha & Hk & _). split; assumption. Qed.

Lemma direct_no_turn_lemma p z :
  let s := Path_ice p in
  wf s -> lo s <= Rmin (SPath_z0 p) (SPath_z1 p) -> Rmax (SPath_z0 p) (SPath_z1 p) <= hi s ->
  Rmin (SPath_z0 p) (SPath_z1 p) <= z <= Rmax (SPath_z0 p) (SPath_z1 p) ->
  0 <= SPath_beta p < AntarcticIce_index s (Rmax (SPath_z0 p) (SPath_z1 p)) ->
  0 < cos (SPath_theta p z) /\ 0 < cos (BPath_theta p z).
Proof.
  cbv zeta. intros W Hlo Hhi Hz Hb.
  set (s := Path_ice p) in *. set (top := Rmax (SPath_z0 p) (SPath_z1 p)) in *.
  assert (Hin : lo s <= z <= hi s) by lra.
  assert (Hint : lo s <= top <= hi s).
  { split; [|lra]. apply Rle_trans with (Rmin (SPath_z0 p) (SPath_z1 p)); [lra|]. unfold top. apply Rle_trans with (SPath_z0 p); [apply Rmin_l | apply Rmax_l]. }
  rewrite (index_inside s top W Hint) in Hb.
  assert (Hnz : nzs s top <= nzs s z) by (apply nzs_monotone; [apply wf_good; exact W | lra]).
  assert (HB : BPath_theta p z = SPath_theta p z) by reflexivity. rewrite HB.
  assert (0 < cos (SPath_theta p z)); [|split; assumption].
  unfold SPath_theta. fold s. rewrite (index_inside s z W Hin).
  unfold SPath_beta in Hb.
  set (x := sin (Path_theta0 p) * SPath_n0 p / nzs s z).
  assert (Hx : 0 <= x < 1).
  { unfold x. replace (sin (Path_theta0 p) * SPath_n0 p) with (SPath_n0 p * sin (Path_theta0 p)) by ring.
    split.
    - apply Rdiv_le_0_compat; lra.
    - apply Rlt_div_l; lra. }
  rewrite cos_asin by lra. apply sqrt_lt_R0. unfold Rsqr. nra.
Qed.

Lemma indirect_turns_lemma p :
  let s := Path_ice p in
  let b := SPath_beta p in
  wf s ->
  (nzs s (hi s) <= b <= nzs s (lo s) -> 0 < b < Ice_n0 s ->
     lo s <= SPath_z_turn p <= hi s /\ AntarcticIce_index s (SPath_z_turn p) = b /\
     cos (SPath_theta p (SPath_z_turn p)) = 0) /\
  (b < nzs s (hi s) -> SPath_z_turn p = hi s) /\
  BPath_z_turn p = SPath_z_turn p /\
  (Path_direct p = false -> forall F,
     SPath_z_integral p F =
       SPath_z_int_uniform_correction (SPath_z0 p) (SPath_z_turn p) (SPath_z_uniform p) b s F
       + SPath_z_int_uniform_correction (SPath_z1 p) (SPath_z_turn p) (SPath_z_uniform p) b s F) /\
  (Path_direct p = true -> forall F,
     SPath_z_integral p F =
       SPath_z_int_uniform_correction (SPath_z0 p) (SPath_z1 p) (SPath_z_uniform p) b s F).
Proof.
  cbv zeta. intros W. set (s := Path_ice p). set (b := SPath_beta p).
  split; [|split; [|split; [|split]]].
  - intros Hr Hb.
    assert (Hb' : b < Ice_n0 s) by lra.
    destruct (gen_inverse_in_range AntarcticIce_index AntarcticIce_depth_with_index ant_inside ant_dwi s b W Hr Hb') as [Hin Hidx].
    fold (SPath_z_turn p) in Hin, Hidx. unfold SPath_z_turn. fold s b.
    split; [exact Hin|]. split; [exact Hidx|].
    unfold SPath_theta. fold s. rewrite Hidx.
    assert (Hb1 : sin (Path_theta0 p) * SPath_n0 p = b) by (unfold b, SPath_beta; ring).
    rewrite Hb1. replace (b / b) with 1 by (field; lra).
    rewrite asin_1. apply cos_PI2.
  - intros Hb. unfold SPath_z_turn. fold s b.
    apply (gen_clamp_low_index AntarcticIce_index AntarcticIce_depth_with_index ant_inside ant_dwi s b W). exact Hb.
  - reflexivity.
  - intros Hd F. unfold SPath_z_integral. rewrite Hd. reflexivity.
  - intros Hd F. unfold SPath_z_integral. rewrite Hd. reflexivity.
Qed.

(* ---------------------------------------------------------------- indirect rays: the improper integral up to the turning depth *)
(* At z_turn (n = beta, gamma = 0) the integrands tan, sec, n sec / c are unbounded, so they are not Riemann
   integrable on [z0, z_turn]; the ray's travel / length / time on that leg is the improper integral, i.e. the
   limit of the integrals on [z0, z'] for z' -> z_turn from below.  The generated closed forms are continuous
   at z_turn, hence that limit is exactly the difference of endpoint values the code computes. *)
Lemma left_limit_of_closed_form (F cf : R -> R) zt :
  (forall y, y <= zt -> F y = cf y) -> continuous cf zt ->
  filterlim F (at_left zt) (locally (F zt)).
Proof.
  intros Heq Hc. rewrite (Heq zt (Rle_refl zt)).
  apply (filterlim_ext_loc cf F).
  - unfold at_left, within. apply filter_forall. intros y Hy. symmetry. apply Heq. lra.
  - intros P HP. unfold filtermap, at_left, within. generalize (Hc P HP). unfold filtermap.
    apply filter_imp. intros y Hy _. exact Hy.
Qed.

Section TurningLimit.
  Variables (s : Ice) (b zt z0 : R).
  Hypothesis G : good s.
  Hypothesis Hb : SPath_beta_tolerance < b.
  Hypothesis Hturn : nzs s zt = b.
  Hypothesis Hz0 : z0 < zt.

  Let Hb0 : 0 < b. Proof. pose proof beta_tolerance_pos. lra. Qed.
  Let Hl1 : 0 < lg1 (Ice_n0 s) (Ice_k s) (Ice_a s) b zt.
  Proof. destruct G as [Ha Hk]. apply lg1_pos; [assumption.. | unfold nzs in Hturn; lra]. Qed.
  Let Hl2 : 0 < lg2 (Ice_n0 s) (Ice_k s) (Ice_a s) b zt.
  Proof. apply lg2_pos; unfold nzs in Hturn; lra. Qed.
  Let below : forall y, y <= zt -> b <= nzs s y.
  Proof. intros y Hy. pose proof (nzs_monotone s y zt G Hy). lra. Qed.
  Let strictly_below : forall y, y < zt -> b < nzs s y.
  Proof. intros y Hy. destruct G as [Ha Hk]. pose proof (nz_decreasing (Ice_n0 s) (Ice_k s) (Ice_a s) Ha Hk y zt Hy). unfold nzs in *. lra. Qed.

  Lemma turning_leg_proper z' : z' < zt ->
    is_RInt (tan_theta s b) z0 z' (SPath_distance_integral z' b s false - SPath_distance_integral z0 b s false) /\
    is_RInt (sec_theta s b) z0 z' (SPath_pathlen_integral z' b s false - SPath_pathlen_integral z0 b s false) /\
    is_RInt (slowness s b) z0 z' (SPath_tof_integral z' b s false - SPath_tof_integral z0 b s false).
  Proof.
    intros Hz'. set (top := Rmax z0 z').
    assert (Htop : b < nzs s top) by (apply strictly_below; unfold top; apply Rmax_lub_lt; assumption).
    split; [|split].
    - apply (dist_shallow_RInt s b top G Hb Htop); [apply Rmax_l | apply Rmax_r].
    - apply (plen_shallow_RInt s b top G Hb Htop); [apply Rmax_l | apply Rmax_r].
    - apply (tof_shallow_RInt s b top G Hb Htop); [apply Rmax_l | apply Rmax_r].
  Qed.

  Lemma turning_leg_limit :
    filterlim (fun z' => SPath_distance_integral z' b s false - SPath_distance_integral z0 b s false)
              (at_left zt) (locally (SPath_distance_integral zt b s false - SPath_distance_integral z0 b s false)) /\
    filterlim (fun z' => SPath_pathlen_integral z' b s false - SPath_pathlen_integral z0 b s false)
              (at_left zt) (locally (SPath_pathlen_integral zt b s false - SPath_pathlen_integral z0 b s false)) /\
    filterlim (fun z' => SPath_tof_integral z' b s false - SPath_tof_integral z0 b s false)
              (at_left zt) (locally (SPath_tof_integral zt b s false - SPath_tof_integral z0 b s false)).
  Proof.
    pose proof G as [Ha Hk].
    split; [|split].
    - apply (left_limit_of_closed_form
               (fun z' => SPath_distance_integral z' b s false - SPath_distance_integral z0 b s false)
               (fun y => b / sqrt (al (Ice_n0 s) b) * L1 (Ice_n0 s) (Ice_k s) (Ice_a s) b y - SPath_distance_integral z0 b s false)).
      + intros y Hy. rewrite (gen_dist_shallow s b y G Hb (below y Hy)). reflexivity.
      + apply cR_minus; [apply dist_cf_continuous; assumption | apply cR_const].
    - apply (left_limit_of_closed_form
               (fun z' => SPath_pathlen_integral z' b s false - SPath_pathlen_integral z0 b s false)
               (fun y => Ice_n0 s / sqrt (al (Ice_n0 s) b) * L1 (Ice_n0 s) (Ice_k s) (Ice_a s) b y
                         + L2 (Ice_n0 s) (Ice_k s) (Ice_a s) b y - SPath_pathlen_integral z0 b s false)).
      + intros y Hy. rewrite (gen_plen_shallow s b y G Hb (below y Hy)). reflexivity.
      + apply cR_minus; [apply plen_cf_continuous; assumption | apply cR_const].
    - apply (left_limit_of_closed_form
               (fun z' => SPath_tof_integral z' b s false - SPath_tof_integral z0 b s false)
               (fun y => (sqrt (ga (Ice_n0 s) (Ice_k s) (Ice_a s) b y) / Ice_a s
                          + Ice_n0 s * L2 (Ice_n0 s) (Ice_k s) (Ice_a s) b y
                          + Ice_n0 s ^ 2 / sqrt (al (Ice_n0 s) b) * L1 (Ice_n0 s) (Ice_k s) (Ice_a s) b y) / speed_of_light
                         - SPath_tof_integral z0 b s false)).
      + intros y Hy. rewrite (gen_tof_shallow s b y G Hb (below y Hy)). reflexivity.
      + apply cR_minus; [apply tof_cf_continuous; assumption | apply cR_const].
  Qed.
End TurningLimit.

(* ---------------------------------------------------------------- log_term_1 in cancellation-free form (clause 7) *)
(* the code computes log_term_1 as beta^2 (k e^{az})^2 / (n0 n - beta^2 + sqrt(alpha gamma)); that IS
   the textbook n0 n - beta^2 - sqrt(alpha gamma) of the closed-form integrals *)
Lemma log1_stable_lemma s b z : good s -> 0 < b -> b <= nzs s z ->
  let '(alpha, n_z, gamma, log_1, log_2) := SPath_int_terms z b s in
  log_1 = Ice_n0 s * n_z - b ^ 2 - sqrt (alpha * gamma) /\
  log_1 = b ^ 2 * (Ice_n0 s - n_z) ^ 2 / (Ice_n0 s * n_z - b ^ 2 + sqrt (alpha * gamma)) /\
  0 < log_1.
Proof.
  intros G Hb Hn. pose proof G as [Ha Hk]. rewrite gen_int_terms by (assumption || lra).
  pose proof (nz_lt_n0 (Ice_n0 s) (Ice_k s) (Ice_a s) Hk z) as Hlt. unfold nzs in *.
  assert (Hag : 0 <= (Ice_n0 s ^ 2 - b ^ 2) * (nz (Ice_n0 s) (Ice_k s) (Ice_a s) z ^ 2 - b ^ 2)) by (apply Rmult_le_pos; nra).
  split; [reflexivity|]. split.
  - unfold lg1, al, ga. apply log1_stable_gen; [exact Hag|].
    pose proof (sqrt_pos ((Ice_n0 s ^ 2 - b ^ 2) * (nz (Ice_n0 s) (Ice_k s) (Ice_a s) z ^ 2 - b ^ 2))). nra.
  - apply lg1_pos; assumption.
Qed.

(* both endpoints below z_uniform: only the uniform-index branch is used, whatever beta *)
Lemma distance_deep_only_lemma s b zu z0 z1 : good s -> - Ice_n0 s < b < Ice_n0 s -> z0 < zu -> z1 < zu ->
  is_RInt (pw (tan_deep s b) (tan_theta s b) zu) z0 z1
          (SPath_z_int_uniform_correction z0 z1 zu b s SPath_distance_integral).
Proof.
  intros G Hb H0 H1.
  destruct (uniform_correction_cases z0 z1 zu b s SPath_distance_integral) as (_ & C2 & _).
  rewrite C2 by assumption.
  apply (pw_deep (tan_deep s b) (tan_theta s b) (fun y => SPath_distance_integral y b s true) zu); try lra.
  intros u v _ _.
  apply (is_RInt_derive (fun y => SPath_distance_integral y b s true) (tan_deep s b)).
  - intros x _. apply (deep_antiderivative_lemma s b x G Hb).
  - intros x _. apply continuous_const.
Qed.

(* ---------------------------------------------------------------- arrival (clause 6) *)
(* brentq is an external library: what it returned is the parameter `root` of the generated
   *_direct_angle / *_indirect_angle_*, and what it guarantees is a Section hypothesis. *)
Section Arrives.
  Variables (tr : Tracer) (root tol : R).
  Let s := Tracer_ice tr.
  Let zf := vz (Tracer_from_point tr).
  Let zt := vz (Tracer_to_point tr).
  (* the conversion arcsin(sin(root) n(z_low) / n(z_from)) is well defined *)
  Hypothesis Hconv : -1 <= sin root * STracer_n0 tr / AntarcticIce_index s zf <= 1.
  Hypothesis Hidx : AntarcticIce_index s zf <> 0.

  Definition direct_path : Path :=
    mkPath (Tracer_from_point tr) (Tracer_to_point tr) (STracer_direct_angle tr root) s (Tracer_dz tr) true.
  Definition indirect_path : Path :=
    mkPath (Tracer_from_point tr) (Tracer_to_point tr) (STracer_indirect_angle_1 tr root) s (Tracer_dz tr) false.

  Lemma conversion_preserves_beta :
    SPath_beta direct_path = STracer_n0 tr * sin root /\
    SPath_beta indirect_path = STracer_n0 tr * sin root /\
    (forall peak, STracer_indirect_angle_2 tr peak root = STracer_indirect_angle_1 tr root).
  Proof.
    unfold SPath_beta, SPath_n0, SPath_z0, direct_path, indirect_path. simpl.
    unfold STracer_direct_angle, STracer_indirect_angle_1, STracer_indirect_angle_2, STracer_get_launch_angle. cbv zeta.
    fold s zf zt.
    split; [|split; [|reflexivity]].
    - destruct (Rgtb zf zt); [rewrite sin_PI_x|]; rewrite sin_asin by exact Hconv; field; exact Hidx.
    - rewrite sin_asin by exact Hconv. field. exact Hidx.
  Qed.

  (* direct solution: brentq returned `root` with |_direct_r(root) - rho| <= tol *)
  Hypothesis brentq_direct : Rabs (STracer_direct_r tr root (STracer_rho tr) None) <= tol.

  Lemma direct_arrives_algebra :
    Rabs (SPath_z_int_uniform_correction (Rmin zf zt) (Rmax zf zt) (SPath_z_uniform direct_path)
            (SPath_beta direct_path) s SPath_distance_integral - SPath_rho direct_path) <= tol.
  Proof.
    destruct conversion_preserves_beta as [Hb _]. rewrite Hb.
    unfold STracer_direct_r, STracer_r_distance in brentq_direct. cbv zeta in brentq_direct.
    replace (STracer_n0 tr * sin root) with (sin root * STracer_n0 tr) by ring.
    exact brentq_direct.
  Qed.

  Lemma direct_arrives_lemma :
    SPath_beta_tolerance < SPath_beta direct_path ->
    wf s -> lo s <= Rmin zf zt -> Rmax zf zt <= hi s ->
    SPath_beta direct_path < AntarcticIce_index s (Rmax zf zt) ->
    exists travel,
      is_RInt (pw (tan_deep s (SPath_beta direct_path)) (tan_theta s (SPath_beta direct_path)) (SPath_z_uniform direct_path))
              (Rmin zf zt) (Rmax zf zt) travel /\
      Rabs (travel - SPath_rho direct_path) <= tol.
  Proof.
    intros Hb W Hlo Hhi Htop.
    eexists. split; [|exact direct_arrives_algebra].
    assert (Hin : lo s <= Rmax zf zt <= hi s).
    { split; [|assumption]. apply Rle_trans with (Rmin zf zt); [assumption|]. apply Rle_trans with zf; [apply Rmin_l | apply Rmax_l]. }
    rewrite (index_inside s _ W Hin) in Htop.
    assert (Hzu : SPath_z_uniform direct_path <= Rmax zf zt \/ Rmax zf zt < SPath_z_uniform direct_path) by lra.
    destruct Hzu as [Hzu|Hzu].
    - apply (distance_definite_lemma s (SPath_beta direct_path) (SPath_z_uniform direct_path) (Rmax zf zt) (wf_good s W) Hb Htop);
        [apply Rle_trans with zf; [apply Rmin_l | apply Rmax_l] | lra | exact Hzu].
    - (* everything below z_uniform: only the deep branch is used *)
      assert (Hr : Rmin zf zt <= Rmax zf zt) by (apply Rle_trans with zf; [apply Rmin_l | apply Rmax_l]).
      apply distance_deep_only_lemma; [apply wf_good; exact W | | lra | lra].
      pose proof W as (Ha & Hk & _). pose proof (nz_lt_n0 (Ice_n0 s) (Ice_k s) (Ice_a s) Hk (Rmax zf zt)).
      pose proof beta_tolerance_pos. unfold nzs in Htop. lra.
  Qed.

  (* indirect solution (outside the `link_range` interpolation next to max_angle) *)
  Variable link_range : R.
  Hypothesis Hlink : root <= STracer_max_angle tr - link_range.
  Hypothesis brentq_indirect : Rabs (STracer_indirect_r tr root (STracer_rho tr) link_range) <= tol.

  Lemma indirect_arrives_lemma :
    Rabs (SPath_z_integral indirect_path SPath_distance_integral - SPath_rho indirect_path) <= tol.
  Proof.
    destruct conversion_preserves_beta as (_ & Hb & _).
    unfold SPath_z_integral. replace (Path_direct indirect_path) with false by reflexivity. cbv zeta.
    unfold SPath_z_turn. rewrite Hb.
    unfold STracer_indirect_r in brentq_indirect. cbv zeta in brentq_indirect.
    apply Rgtb_false in Hlink. rewrite Hlink in brentq_indirect.
    unfold STracer_r_distance in brentq_indirect. cbv zeta in brentq_indirect.
    replace (STracer_n0 tr * sin root) with (sin root * STracer_n0 tr) in * by ring.
    replace (SPath_z0 indirect_path) with zf by reflexivity.
    replace (SPath_z1 indirect_path) with zt by reflexivity.
    replace (SPath_z_uniform indirect_path) with (STracer_z_uniform tr) by reflexivity.
    replace (Path_ice indirect_path) with s by reflexivity.
    replace (SPath_rho indirect_path) with (STracer_rho tr) by reflexivity.
    fold s in brentq_indirect.
    unfold STracer_z0, STracer_z1 in brentq_indirect. fold zf zt in brentq_indirect.
    unfold Rmin, Rmax in brentq_indirect. destruct (Rle_dec zf zt).
    - exact brentq_indirect.
    - rewrite Rplus_comm. exact brentq_indirect.
  Qed.
End Arrives.

(* ---------------------------------------------------------------- numeric tracer on the generated definition *)
From PyrexProofs Require Import C01_numeric.

(* the interval count helper of the numeric tracer: int(|length|/dz), but at least one interval for a
   non-empty leg (pyrex fix b58341b); legs of non-positive length keep their truncated count *)
Lemma sign_pos x : 0 < x -> sign x = 1.
Proof.
  intros H. unfold sign. assert (E1 : Rltb x 0 = false) by (apply Rltb_false; lra).
  assert (E2 : Rltb 0 x = true) by (apply Rltb_true; lra). rewrite E1, E2. reflexivity.
Qed.
Lemma sign_zero : sign 0 = 0.
Proof. unfold sign. assert (E : Rltb 0 0 = false) by (apply Rltb_false; lra). rewrite E. reflexivity. Qed.

Lemma n_intervals_long len dz : 0 < dz -> dz <= len ->
  _n_intervals len dz = Rtrunc (Rabs len / dz) /\ (1 <= _n_intervals len dz)%Z.
Proof.
  intros Hdz Hl. unfold _n_intervals.
  assert (Hx : 1 <= Rabs len / dz) by (rewrite Rabs_right by lra; apply Rle_div_r; lra).
  rewrite (Rmax_left len 0) by lra.
  rewrite sign_pos by lra. rewrite Rmax_left by lra.
  destruct (Rtrunc_nonneg (Rabs len / dz)) as [H1 H2]; [lra|].
  split; [reflexivity|].
  assert (0 < IZR (Rtrunc (Rabs len / dz))) by lra. apply lt_IZR in H. lia.
Qed.

Lemma Rtrunc_one : Rtrunc 1 = 1%Z.
Proof.
  destruct (Rtrunc_nonneg 1) as [H1 H2]; [lra|].
  assert (0 < IZR (Rtrunc 1) < 2) by lra. destruct H as [Ha Hb]. apply lt_IZR in Ha. apply lt_IZR in Hb. lia.
Qed.

Lemma n_intervals_short len dz : 0 < dz -> 0 < len < dz -> _n_intervals len dz = 1%Z.
Proof.
  intros Hdz Hl. unfold _n_intervals.
  rewrite (Rmax_left len 0) by lra. rewrite sign_pos by lra.
  assert (Hx : Rabs len / dz < 1) by (rewrite Rabs_right by lra; apply Rlt_div_l; lra).
  rewrite Rmax_right by lra. apply Rtrunc_one.
Qed.

Lemma n_intervals_empty len dz : 0 < dz -> - dz < len <= 0 -> _n_intervals len dz = 0%Z.
Proof.
  intros Hdz Hl. unfold _n_intervals.
  rewrite (Rmax_right len 0) by lra. rewrite sign_zero.
  assert (Hx : 0 <= Rabs len / dz < 1).
  { rewrite Rabs_left1 by lra. split; [apply Rdiv_le_0_compat; lra | apply Rlt_div_l; lra]. }
  rewrite Rmax_left by lra. apply Rtrunc_small. exact Hx.
Qed.

(* a direct leg shorter than dz: one trapezoid spanning the whole leg; an empty leg: 0 *)
Lemma numeric_direct_short_lemma p (f : R -> R) :
  Path_direct p = true -> 0 < Path_dz p ->
  (0 < Rabs (BPath_z1 p - BPath_z0 p) < Path_dz p ->
     BPath_z_integral p f =
       trapz_dx (map f (linspace (BPath_z0 p) (BPath_z1 p) 2)) (Rabs (linspace_step (BPath_z0 p) (BPath_z1 p) 2)) /\
     Rabs (linspace_step (BPath_z0 p) (BPath_z1 p) 2) = Rabs (BPath_z1 p - BPath_z0 p)) /\
  (BPath_z1 p = BPath_z0 p -> BPath_z_integral p f = 0).
Proof.
  intros Hd Hdz. split.
  - intros Hc. unfold BPath_z_integral. rewrite Hd. cbv zeta.
    rewrite (n_intervals_short _ _ Hdz Hc). split; [reflexivity|].
    unfold linspace_step. simpl. f_equal. field.
  - intros E. unfold BPath_z_integral. rewrite Hd. cbv zeta. rewrite E.
    replace (BPath_z0 p - BPath_z0 p) with 0 by ring. rewrite Rabs_R0.
    rewrite (n_intervals_empty 0 _ Hdz) by lra. reflexivity.
Qed.

Lemma numeric_direct_grid_lemma p (f : R -> R) :
  Path_direct p = true -> 0 < Path_dz p -> Path_dz p <= Rabs (BPath_z1 p - BPath_z0 p) ->
  let n := Rtrunc (Rabs (BPath_z1 p - BPath_z0 p) / Path_dz p) in
  let h := Rabs (linspace_step (BPath_z0 p) (BPath_z1 p) (n + 1)) in
  BPath_z_integral p f = trapz_dx (map f (linspace (BPath_z0 p) (BPath_z1 p) (n + 1))) h /\
  Path_dz p <= h < 2 * Path_dz p /\
  lower_sum (map f (linspace (BPath_z0 p) (BPath_z1 p) (n + 1))) h <= BPath_z_integral p f
    <= upper_sum (map f (linspace (BPath_z0 p) (BPath_z1 p) (n + 1))) h.
Proof.
  intros Hd Hdz Hc. cbv zeta.
  destruct (grid_step_bounds (BPath_z0 p) (BPath_z1 p) (Path_dz p) Hdz Hc) as [Hn Hstep]. cbv zeta in Hn, Hstep.
  assert (E : BPath_z_integral p f =
              trapz_dx (map f (linspace (BPath_z0 p) (BPath_z1 p) (Rtrunc (Rabs (BPath_z1 p - BPath_z0 p) / Path_dz p) + 1)))
                       (Rabs (linspace_step (BPath_z0 p) (BPath_z1 p) (Rtrunc (Rabs (BPath_z1 p - BPath_z0 p) / Path_dz p) + 1)))).
  { unfold BPath_z_integral. rewrite Hd. cbv zeta.
    destruct (n_intervals_long (Rabs (BPath_z1 p - BPath_z0 p)) (Path_dz p) Hdz Hc) as [En _].
    rewrite En, Rabs_Rabsolu. reflexivity. }
  split; [exact E|]. split; [exact Hstep|]. rewrite E. apply trapz_between_sums. apply Rabs_pos.
Qed.

(* ---------------------------------------------------------------- non-vacuity *)
Definition example_ice : Ice := default_antarctic.
Definition example_tracer : Tracer := mkTracer (0, 0, -200) (100, 0, -100) example_ice 1.
Definition example_path : Path := mkPath (0, 0, 0) (100, 0, 0) (PI / 6) example_ice 1 true.

Lemma example_good : good example_ice /\ wf example_ice.
Proof. split; [|exact default_wf]. unfold good, example_ice, default_antarctic; simpl. lra. Qed.

Lemma example_index0 : AntarcticIce_index example_ice 0 = 1.35.
Proof.
  rewrite (index_inside example_ice 0 default_wf); [|unfold lo, hi, example_ice, default_antarctic; simpl; lra].
  unfold nzs, nz, example_ice, default_antarctic; simpl. rewrite Rmult_0_r, exp_0. lra.
Qed.

Lemma example_beta_in_range :
  SPath_beta_tolerance < SPath_beta example_path < nzs example_ice 0 /\
  -1 <= snell_arg example_path (SPath_z1 example_path) <= 1.
Proof.
  unfold SPath_beta, SPath_n0, SPath_z0, snell_arg, SPath_z1, SPath_n0, SPath_z0, example_path, SPath_beta_tolerance; simpl.
  unfold vz; simpl. rewrite !example_index0, sin_PI6.
  unfold nzs, nz, example_ice, default_antarctic; simpl. rewrite Rmult_0_r, exp_0.
  repeat split; lra.
Qed.
