"""Gen_prop.v: the propagation formulas of pyrex/ray_tracing.py and
pyrex/custom/layered_ice/ray_tracing.py translated to Coq over R (complex numbers as pairs).

What is translated (fail-closed; anything unexpected raises TranslationError):
  * BasicRayTracePath.theta, .fresnel (whole property; ice / path look-ups are record fields),
    .attenuation with its nested integrand and .z_integral (linspace + trapezoid, list level)
  * SpecializedRayTracePath._attenuation_integral_def as the per-node pair (int_var, integrand)
  * UniformRayTracePath.fresnel loop body (per reflection), .attenuation loop body (per segment)
  * LayeredRayTracePath.fresnel: the reflection and the transmission arm of the loop body
  * the polarization-vector construction u_s0, u_p0, u_p1, pol_s, pol_p of propagate()
  * propagate() of the three classes in the "signal and polarization given" mode, signals being
    the opaque record Sig and Signal.filter_frequencies a function parameter (C05 owns it); in
    BasicRayTracePath.propagate the block that prepares the frequency grid (fftfreq / logspace /
    self.attenuation(freqs)) is replaced by the two parameters freqs, atten_vals.
Statement slices are cut out of the source AST by shape; the surrounding loops / look-ups are
the hand model coq/Model/PropagationModel.v (pinned).
"""
import ast
import copy
import os
import sys

sys.path.insert(0, os.path.dirname(os.path.abspath(__file__)))
import py2coq
from py2coq import Module, ClassTr, FnTr, TranslationError, split_tuple
import gen_antenna
from gen_antenna import AntFnTr, AntClassTr

py2coq.COQ_TY.update({"C": "(R * R)", "sig": "Sig", "tuple[C,C]": "((R * R) * (R * R))", "funC": "(R -> R * R)", "opt:tuple[C,C]": "option ((R * R) * (R * R))",
                      "listvec3": "list (R * R * R)"})

PRELUDE_EXTRA = ("From PyrexLib Require Import CPair SignalAlg ListOps.\n"
                 "From PyrexGen Require Import Gen_ice.\n")

PATH_RECORD = [("theta0", "R"), ("phi", "R"), ("n0", "R"), ("z0", "R"), ("z1", "R"), ("dz", "R"), ("direct", "bool"),
               ("z_turn", "R"), ("z_turn_proximity", "R"), ("tof", "R"), ("ice", "Ice"),
               ("emitted_direction", "vec3"), ("received_direction", "vec3")]
UPATH_RECORD = [("n0", "R"), ("phi", "R"), ("tof", "R"), ("ice", "UIce"), ("emitted_direction", "vec3"), ("received_direction", "vec3")]

ICE_PREFIX = {"Ice": "AntarcticIce", "UIce": "UniformIce"}
ICE_METHODS = {"index": "R", "attenuation_length": "R", "index_above": "R", "index_below": "R"}


class PropFnTr(AntFnTr):
    forced_ret = None            # e.g. "tuple[C,C]"

    def __init__(self, *a, **k):
        super().__init__(*a, **k)
        self.opaque = {}         # ast.dump(expr) -> (code, type)

    # ------------------------------------------------------------------ helpers
    def to_c(self, code, t, node=None):
        if t == "C":
            return code
        if t == "Z":
            return "(cofR (IZR %s))" % code
        if t == "R":
            return "(cofR %s)" % code
        self.mod.err(node, "cannot use %s as a complex number" % t)

    def coerce(self, code, t, want, node=None):
        if t == want:
            return code
        if want == "C":
            return self.to_c(code, t, node)
        if want.startswith("tuple[") and t.startswith("tuple["):
            a, b = split_tuple(t), split_tuple(want)
            if len(a) == len(b) == 2:
                return "(%s, %s)" % (self.coerce("(fst %s)" % code, a[0], b[0], node), self.coerce("(snd %s)" % code, a[1], b[1], node))
        if want == "vec3" and t == "listR3":
            return code
        self.mod.err(node, "cannot coerce %s to %s" % (t, want))

    # ------------------------------------------------------------------ expressions
    def expr(self, n):
        key = ast.dump(n)
        if key in self.opaque:
            return self.opaque[key]
        return super().expr(n)

    def e_Constant(self, n):
        if isinstance(n.value, complex):
            if n.value.real != 0:
                self.err(n, "complex literal with a real part")
            src = py2coq.literal_source(self.mod, n)
            return "(0, %s)" % py2coq.fmt_num(n.value.imag, src[:-1] if src else None), "C"
        return super().e_Constant(n)

    def e_List(self, n):
        if len(n.elts) == 3:
            parts = [self.expr(e) for e in n.elts]
            if all(p[1] == "R" for p in parts):
                return "(%s, %s, %s)" % tuple(p[0] for p in parts), "listR3"
        return super().e_List(n)

    def e_Attribute(self, n):
        if n.attr == "T":
            c, t = self.expr(n.value)
            if t in ("R", "listR"):
                return c, t
        d = self.dotted(n)
        # ice.k / self.ice.valid_range : record fields of the ice record
        if d and len(d) == 3 and d[0] == self.self_name and d[1] == "ice" and self.record:
            rt = dict(self.mod.records[self.record]).get("ice")
            if rt:
                return self.ice_attr(n, "(%s_ice %s)" % (self.record, self.self_name), rt, d[2])
        if d and len(d) == 2 and d[0] in self.vars and self.vars[d[0]][1] in ICE_PREFIX:
            return self.ice_attr(n, self.vars[d[0]][0], self.vars[d[0]][1], d[1])
        return super().e_Attribute(n)

    def ice_attr(self, n, code, rname, attr):
        for f, t in self.mod.records[rname]:
            if f == attr:
                return "(%s_%s %s)" % (rname, f.lstrip("_"), code), t
        if attr in ("index_above", "index_below"):
            return "(%s_%s %s)" % (ICE_PREFIX[rname], attr, code), "R"
        self.err(n, "ice record %s has no field %r" % (rname, attr))

    def e_Subscript(self, n):
        if isinstance(n.slice, ast.Slice):
            s = n.slice
            base, t = self.expr(n.value)
            if t == "vec3" and s.lower is None and s.step is None and isinstance(s.upper, ast.Constant) and s.upper.value == 2:
                return "(vx %s, vy %s)" % (base, base), "pair"
            self.err(n, "unsupported slice")
        return super().e_Subscript(n)

    def e_UnaryOp(self, n):
        if isinstance(n.op, ast.USub):
            c, t = self.expr(n.operand)
            if t == "C":
                return "(cneg %s)" % c, "C"
        return super().e_UnaryOp(n)

    def e_BinOp(self, n):
        op = type(n.op).__name__

        def int_lit(x):
            return isinstance(x, ast.Constant) and isinstance(x.value, int) and not isinstance(x.value, bool)
        if op in ("Add", "Sub", "Mult") and (int_lit(n.left) or int_lit(n.right)) and not (int_lit(n.left) and int_lit(n.right)):
            other = n.right if int_lit(n.left) else n.left
            c, t = self.expr(other)
            if t == "Z":
                sym = {"Add": "+", "Sub": "-", "Mult": "*"}[op]
                lit = str((n.left if int_lit(n.left) else n.right).value)
                a, b = (lit, c) if int_lit(n.left) else (c, lit)
                return "(%s %s %s)%%Z" % (a, sym, b), "Z"
        if op in ("Add", "Sub", "Mult", "Div", "Pow"):
            l, tl = self.expr(n.left)
            if op == "Pow":
                if tl == "pair" and isinstance(n.right, ast.Constant) and n.right.value == 2:
                    return "(fst %s * fst %s, snd %s * snd %s)" % (l, l, l, l), "pair"
                return super().e_BinOp(n)
            r, tr = self.expr(n.right)
            if tl == "Z":
                l, tl = "(IZR %s)" % l, "R"
            if tr == "Z":
                r, tr = "(IZR %s)" % r, "R"
            if "C" in (tl, tr) and tl in ("R", "C") and tr in ("R", "C"):
                f = {"Add": "cadd", "Sub": "csub", "Mult": "cmul", "Div": "cdiv"}[op]
                if op == "Mult" and tl == "R":
                    return "(cscale %s %s)" % (l, r), "C"
                if op == "Mult" and tr == "R":
                    return "(cscale %s %s)" % (r, l), "C"
                return "(%s %s %s)" % (f, self.to_c(l, tl, n), self.to_c(r, tr, n)), "C"
            if tl == "pair" and tr == "pair" and op == "Sub":
                return "(fst %s - fst %s, snd %s - snd %s)" % (l, r, l, r), "pair"
            if tl == "R" and tr == "listR" and op == "Div":
                return "(map (fun e_ : R => %s / e_) %s)" % (l, r), "listR"
            if tl == "sig" and tr == "R" and op == "Mult":
                return "(sig_scale %s %s)" % (r, l), "sig"
        return super().e_BinOp(n)

    def ice_call(self, n, code, rname, meth, args):
        if meth not in ICE_METHODS:
            self.err(n, "ice method %s is not available to the translation" % meth)
        cargs = [self.expr(a) for a in args]
        name = "%s_%s" % (ICE_PREFIX[rname], meth)
        lists = [i for i, (c, t) in enumerate(cargs) if t == "listR"]
        if not lists:
            return "(%s %s %s)" % (name, code, " ".join(c for c, _ in cargs)), "R"
        if len(lists) == 1:
            i = lists[0]
            inner = " ".join("e_" if j == i else c for j, (c, _) in enumerate(cargs))
            return "(map (fun e_ : R => %s %s %s) %s)" % (name, code, inner, cargs[i][0]), "listR"
        self.err(n, "two array arguments to an ice method")

    def e_Call(self, n):
        f = n.func
        d = self.dotted(f)
        kw = {k.arg: k.value for k in n.keywords}
        if d and len(d) == 2 and d[0] == "np":
            name = d[1]
            if name == "cross" and len(n.args) == 2:
                a, ta = self.expr(n.args[0])
                b, tb = self.expr(n.args[1])
                if {ta, tb} <= {"vec3", "listR3"}:
                    return "(vcross %s %s)" % (a, b), "vec3"
            if name in ("dot", "vdot") and len(n.args) == 2:
                a, ta = self.expr(n.args[0])
                b, tb = self.expr(n.args[1])
                if {ta, tb} <= {"vec3", "listR3"}:
                    return "(vdot %s %s)" % (a, b), "R"
            if name == "full_like" and len(n.args) == 2 and not kw:
                c0, t0 = self.expr(n.args[0])
                if t0 == "R":                      # scalar mode: an array of the shape of a depth filled with v is v
                    return self.num(n.args[1])
            if name == "any" and len(n.args) == 1 and not kw:
                a, ta = self.expr(n.args[0])
                if ta == "vec3":
                    return "(vany %s)" % a, "bool"
            if name == "sum" and len(n.args) == 1 and not kw:
                a, ta = self.expr(n.args[0])
                if ta == "pair":
                    return "(fst %s + snd %s)" % (a, a), "R"
            if name == "sqrt" and len(n.args) == 1:
                a, ta = self.expr(n.args[0])
                if ta == "C":
                    return "(csqrt %s)" % a, "C"
            if name in ("exp",) and len(n.args) == 1:
                a, ta = self.expr(n.args[0])
                if ta == "listR":
                    return "(map exp %s)" % a, "listR"
            if name == "prod" and len(n.args) == 1 and set(kw) <= {"axis"}:
                a, ta = self.expr(n.args[0])
                if ta == "listR":
                    return "(list_prod %s)" % a, "R"
            if name == "array" and len(n.args) == 1 and isinstance(n.args[0], ast.List) and len(n.args[0].elts) == 1:
                return "[%s]" % self.num(n.args[0].elts[0])[0], "listR"
            if name == "linspace" and len(n.args) == 3 and isinstance(kw.get("retstep"), ast.Constant) and kw["retstep"].value is True:
                a, _ = self.num(n.args[0])
                b, _ = self.num(n.args[1])
                cnt, tc = self.expr(n.args[2])
                if tc != "Z":
                    self.err(n, "linspace count must be an integer")
                ep = kw.get("endpoint")
                if ep is None:
                    return "(linspace_closed %s %s %s, linspace_closed_step %s %s %s)" % (a, b, cnt, a, b, cnt), "tuple[listR,R]"
                if isinstance(ep, ast.Constant) and ep.value is False and set(kw) == {"retstep", "endpoint"}:
                    return "(linspace_open %s %s %s, linspace_open_step %s %s %s)" % (a, b, cnt, a, b, cnt), "tuple[listR,R]"
                self.err(n, "unsupported linspace form")
            if name == "interp" and len(n.args) == 3 and not kw:
                x, _ = self.num(n.args[0])
                xs, tx = self.expr(n.args[1])
                ys, ty = self.expr(n.args[2])
                if tx == ty == "listR":
                    return "(np_interp %s %s %s)" % (x, xs, ys), "R"
        if isinstance(f, ast.Name) and f.id == "trapezoid":
            if len(n.args) == 1 and set(kw) == {"x", "axis"}:
                y, ty = self.expr(n.args[0])
                x, tx = self.expr(kw["x"])
                if tx == ty == "R":
                    return "(%s, %s)" % (x, y), "tuple[R,R]"     # one node of the trapezoid sum
            if len(n.args) == 1 and set(kw) == {"dx", "axis"}:
                y, ty = self.expr(n.args[0])
                dx, _ = self.num(kw["dx"])
                if ty == "listR":
                    return "(trapz_dx %s %s)" % (dx, y), "R"
            self.err(n, "unsupported trapezoid form")
        if isinstance(f, ast.Name) and f.id in self.vars and self.vars[f.id][1] == "fun" and len(n.args) == 1:
            a, ta = self.expr(n.args[0])
            if ta == "listR":
                return "(map %s %s)" % (self.vars[f.id][0], a), "listR"
        if isinstance(f, ast.Name) and f.id == "int" and len(n.args) == 1:
            c, t = self.expr(n.args[0])
            if t == "R":
                return "(Rtrunc %s)" % c, "Z"
        # ice methods: ice.index(z), self.ice.index(z)
        if d and len(d) == 2 and d[0] in self.vars and self.vars[d[0]][1] in ICE_PREFIX:
            return self.ice_call(n, self.vars[d[0]][0], self.vars[d[0]][1], d[1], n.args)
        if d and len(d) == 3 and d[0] == self.self_name and d[1] == "ice" and self.record:
            rt = dict(self.mod.records[self.record]).get("ice")
            if rt:
                return self.ice_call(n, "(%s_ice %s)" % (self.record, self.self_name), rt, d[2], n.args)
        return super().e_Call(n)

    def e_Lambda(self, n):
        if len(n.args.args) != 1:
            self.err(n, "only one-argument lambdas")
        a = n.args.args[0].arg
        saved = dict(self.vars)
        self.vars[a] = (a, "R")
        body, t = self.expr(n.body)
        self.vars = saved
        if t == "C":
            return "(fun %s : R => %s)" % (a, body), "funC"
        if t == "R":
            return "(fun %s : R => %s)" % (a, body), "fun"
        self.err(n, "lambda returning %s" % t)

    # ------------------------------------------------------------------ statements
    def ret(self, code, t):
        if self.forced_ret and t != self.forced_ret:
            code, t = self.coerce(code, t, self.forced_ret), self.forced_ret
        return super().ret(code, t)

    def block(self, stmts, k=None):
        if not stmts:
            return super().block(stmts, k)
        s, rest = stmts[0], stmts[1:]
        if isinstance(s, ast.FunctionDef):
            # nested helper:  def integrand(z): ...  -> local function
            if len(s.args.args) != 1:
                self.err(s, "nested function with several parameters")
            a = s.args.args[0].arg
            saved, saved_rt = dict(self.vars), self.ret_types
            self.vars[a] = (a, "R")
            self.ret_types = []
            saved_opt, saved_forced = self.option_mode, self.forced_ret
            self.option_mode, self.forced_ret = False, None
            body = self.block(list(s.body), None)
            rts = self.ret_types
            self.vars, self.ret_types = saved, saved_rt
            self.option_mode, self.forced_ret = saved_opt, saved_forced
            if rts != ["R"]:
                self.err(s, "nested function must return one real")
            self.vars[s.name] = (s.name, "fun")
            return "let %s := (fun %s : R => %s) in\n  %s" % (s.name, a, body, self.block(rest, k))
        if isinstance(s, ast.Expr) and isinstance(s.value, ast.Call):
            d = self.dotted(s.value.func)
            call = s.value
            if d and len(d) == 2 and d[0] in self.vars and self.vars[d[0]][1] == "sig":
                v = d[0]
                if d[1] == "shift" and len(call.args) == 1 and not call.keywords:
                    c, _ = self.num(call.args[0])
                    return "let %s := sig_shift %s %s in\n  %s" % (v, c, v, self.block(rest, k))
                if d[1] == "filter_frequencies" and len(call.args) == 1:
                    g, tg = self.expr(call.args[0])
                    if tg == "fun":
                        g = "(fun f_ : R => cofR (%s f_))" % g
                    elif tg != "funC":
                        # a bound method of self used as the response function
                        fd = self.dotted(call.args[0])
                        self.err(s, "filter function of type %s" % tg)
                    kws = {k_.arg: k_.value for k_ in call.keywords}
                    if set(kws) - {"force_real"}:
                        self.err(s, "unsupported filter_frequencies keywords")
                    fr = self.boolean(kws["force_real"])[0] if "force_real" in kws else "false"
                    self.uses_filter = True
                    return "let %s := sig_filter %s %s %s in\n  %s" % (v, g, fr, v, self.block(rest, k))
        if isinstance(s, ast.If) and not self.none_test(s) and not gen_antenna.contains_raise(s):
            rb = self.always_returns(s.body)
            ro = self.always_returns(s.orelse) if s.orelse else False
            test = self.const_bool(s.test)
            if not rb and not ro and test not in ("true", "false"):
                # branches assign variables; coerce R -> C where the arms differ
                ab, ao = self.assigned(s.body), self.assigned(s.orelse)
                # survive the statement: assigned on both arms, or already defined before it
                vs = [v for v in ab + [v for v in ao if v not in ab] if (v in ab and v in ao) or v in self.vars]
                if vs:
                    saved = dict(self.vars)
                    arms = []
                    for body in (s.body, s.orelse):
                        self.vars = dict(saved)
                        got = []

                        def fin(got=got):
                            for v in vs:
                                if v not in self.vars:
                                    raise TranslationError("%s:%d: variable %r is not assigned on every path" % (self.mod.source, s.lineno, v))
                                got.append(self.vars[v])
                            return "\0"
                        code = self.block(list(body), fin)
                        arms.append((code, got))
                    self.vars = dict(saved)
                    types = []
                    for (c1, t1), (c2, t2) in zip(arms[0][1], arms[1][1]):
                        types.append(t1 if t1 == t2 else ("C" if {t1, t2} == {"R", "C"} else None))
                    if None in types:
                        self.err(s, "branches assign different types")
                    outs = []
                    for code, got in arms:
                        tup = py2coq.tuple_code([self.coerce(c, t, w, s) for (c, t), w in zip(got, types)])
                        outs.append(code.replace("\0", tup))
                    for v, t in zip(vs, types):
                        self.vars[v] = (v, t)
                    lhs = "let %s :=" % vs[0] if len(vs) == 1 else "let '(%s) :=" % ", ".join(vs)
                    return "%s (if %s then %s else %s) in\n  %s" % (lhs, test, outs[0], outs[1], self.block(rest, k))
        return super().block(stmts, k)


class PropClassTr(AntClassTr):
    def __init__(self, *a, **k):
        super().__init__(*a, **k)
        owner = self

        class Tr(PropFnTr):
            pass
        Tr.enum = self.enum
        Tr.owner = owner
        self.fn_class = Tr
        self.forced = {}
        self.opaque = {}

    def translate_def(self, node, tr, coqname, has_self, pkey):
        tr.forced_ret = self.forced.get(pkey)
        tr.opaque = dict(self.opaque.get(pkey, {}))
        return super().translate_def(node, tr, coqname, has_self, pkey)


# ---------------------------------------------------------------------------------------------
def parse_expr(text):
    return ast.parse(text, mode="eval").body


def dump(text):
    return ast.dump(parse_expr(text))


def synth(mod, name, params, body, like):
    fn = ast.FunctionDef(name=name, args=ast.arguments(posonlyargs=[], args=[ast.arg(arg=p) for p in params], vararg=None,
                                                       kwonlyargs=[], kw_defaults=[], kwarg=None, defaults=[]),
                         body=body, decorator_list=[], returns=None)
    for x in ast.walk(fn):
        if not hasattr(x, "lineno"):
            x.lineno, x.col_offset, x.end_lineno, x.end_col_offset = like.lineno, 0, like.lineno, 0
    return fn


def names_assigned(st):
    out = []
    for x in ast.walk(st):
        if isinstance(x, (ast.Assign, ast.AugAssign)):
            tg = x.targets if isinstance(x, ast.Assign) else [x.target]
            for t in tg:
                out += py2coq.names_of(t)
    return out


def ret_tuple(names):
    return ast.Return(value=ast.Tuple(elts=[ast.Name(id=n, ctx=ast.Load()) for n in names], ctx=ast.Load()))


def find_for(node, mod, what):
    loops = [x for x in node.body if isinstance(x, ast.For)]
    if len(loops) != 1:
        mod.err(node, "%s: expected exactly one for loop" % what)
    return loops[0]


def slice_from(stmts, first_target):
    """statements from the first assignment to `first_target` on"""
    for i, st in enumerate(stmts):
        if isinstance(st, ast.Assign) and py2coq.names_of(st.targets[0]) == [first_target]:
            return stmts[i:]
    raise TranslationError("statement assigning %r not found" % first_target)


def generate(repo):
    enum = gen_antenna.signal_type_enum(repo)
    ice_rec = [("n0", "R"), ("k", "R"), ("a", "R"), ("valid_range", "pair"), ("_index_above", "optR"), ("_index_below", "optR")]
    uice_rec = [("n", "R"), ("valid_range", "pair"), ("_index_above", "optR"), ("_index_below", "optR")]
    records = {"Ice": ice_rec, "UIce": uice_rec, "Path": PATH_RECORD, "UPath": UPATH_RECORD}
    mod = Module(repo, "pyrex/ray_tracing.py", records=records)
    mod.emit(gen_antenna.record_text("Path", PATH_RECORD, mod))
    mod.emit(gen_antenna.record_text("UPath", UPATH_RECORD, mod))
    shape = {}

    # ---- BasicRayTracePath: theta, fresnel, z_integral, attenuation
    bt = PropClassTr(mod, "BasicRayTracePath", record="Path", enum=enum,
                     param_types={"z_integral": {"integrand": "fun"}, "attenuation": {"f": "R"}})
    bt.forced["fresnel"] = "tuple[C,C]"
    for m in ["theta", "fresnel", "z_integral", "attenuation"]:
        if bt.member(m) is None:
            raise TranslationError("pyrex/ray_tracing.py: BasicRayTracePath.%s not found" % m)

    # ---- SpecializedRayTracePath._attenuation_integral_def: one node (int_var, integrand)
    st = PropClassTr(mod, "SpecializedRayTracePath", record=None, enum=enum,
                     param_types={"_attenuation_integral_def": {"ice": "Ice", "deep": "bool"}})
    c, node = mod.find_member("SpecializedRayTracePath", "_attenuation_integral_def")
    if node is None:
        raise TranslationError("SpecializedRayTracePath._attenuation_integral_def not found")
    tr = st.fn_class(mod, cname="SpecializedRayTracePath", record=None, consts=st.consts)
    tr.lookup_member = st.lookup
    st.translate_def(node, tr, "SpecializedRayTracePath_attenuation_node", has_self=True, pkey="_attenuation_integral_def")
    # its attenuation(): exp(-|z_integral(...)|), the z_integral being the pinned hand model
    c, node = mod.find_member("SpecializedRayTracePath", "attenuation")
    body = [s for s in node.body if not (isinstance(s, ast.Expr) and isinstance(s.value, ast.Constant))]
    if len(body) != 1 or not isinstance(body[0], ast.Return):
        mod.err(node, "SpecializedRayTracePath.attenuation is not a single return")
    zi = [x for x in ast.walk(body[0]) if isinstance(x, ast.Call) and isinstance(x.func, ast.Attribute) and x.func.attr == "z_integral"]
    if len(zi) != 1:
        mod.err(node, "expected one z_integral call")
    kws = {k.arg: ast.dump(k.value) for k in zi[0].keywords}
    if [ast.dump(a) for a in zi[0].args] != [dump("self._attenuation_integral_def")] or \
            kws != {"integrand_kwargs": dump("{'f': f}"), "numerical": dump("True")}:
        mod.err(node, "z_integral is not called with the attenuation integrand / f / numerical=True")
    st.opaque["attenuation"] = {ast.dump(zi[0]): ("z_integral_value", "R")}
    st.param_types["attenuation"] = {"f": "skip"}
    tr = st.fn_class(mod, cname="SpecializedRayTracePath", record=None, consts=st.consts)
    tr.lookup_member = st.lookup
    fn = synth(mod, "attenuation", ["self", "z_integral_value"], body, node)
    st.param_types["attenuation_of_integral"] = {}
    st.opaque["attenuation_of_integral"] = st.opaque["attenuation"]
    st.translate_def(fn, tr, "SpecializedRayTracePath_attenuation_of_integral", has_self=True, pkey="attenuation_of_integral")

    # ---- UniformRayTracePath: fresnel step, attenuation step
    ut = PropClassTr(mod, "UniformRayTracePath", record="UPath", enum=enum, raising=("fresnel_step",))
    c, node = mod.find_member("UniformRayTracePath", "fresnel")
    loop = find_for(node, mod, "UniformRayTracePath.fresnel")
    if ast.dump(loop.target) != dump("(p1, p2)").replace("Load", "Store") or ast.dump(loop.iter) != dump("zip(self._points[:-2], self._points[1:-1])"):
        mod.err(loop, "unexpected loop header in UniformRayTracePath.fresnel")
    inits = {py2coq.names_of(s.targets[0])[0]: ast.dump(s.value) for s in node.body if isinstance(s, ast.Assign) and isinstance(s.targets[0], ast.Name)}
    if inits != {"r_s": dump("1"), "r_p": dump("1"), "n_1": dump("self.n0")}:
        mod.err(node, "unexpected initialisation in UniformRayTracePath.fresnel: %s" % sorted(inits))
    shape["uniform_fresnel"] = "fold over consecutive point pairs excluding the last segment; r_s = r_p = 1, n_1 = self.n0"
    ut.param_types["fresnel_step"] = {"p1": "vec3", "p2": "vec3", "r_s": "C", "r_p": "C"}
    ut.forced["fresnel_step"] = "tuple[C,C]"
    fn = synth(mod, "fresnel_step", ["self", "n_1", "r_s", "r_p", "p1", "p2"], list(loop.body) + [ret_tuple(["r_s", "r_p"])], loop)
    tr = ut.fn_class(mod, cname="UniformRayTracePath", record="UPath", consts=ut.consts)
    tr.lookup_member = ut.lookup
    ut.translate_def(fn, tr, "UniformRayTracePath_fresnel_step", has_self=True, pkey="fresnel_step")

    c, node = mod.find_member("UniformRayTracePath", "attenuation")
    loop = find_for(node, mod, "UniformRayTracePath.attenuation")
    if ast.dump(loop.target) != dump("(p1, p2)").replace("Load", "Store") or ast.dump(loop.iter) != dump("zip(self._points[:-1], self._points[1:])"):
        mod.err(loop, "unexpected loop header in UniformRayTracePath.attenuation")
    pre = [s for s in node.body if isinstance(s, ast.Assign)]
    if [ast.dump(s) for s in pre] != [ast.dump(ast.parse("fa = np.abs(f)").body[0]), ast.dump(ast.parse("attens = np.ones(fa.shape)").body[0])]:
        mod.err(node, "unexpected initialisation in UniformRayTracePath.attenuation")
    ut.param_types["attenuation_step"] = {"p1": "vec3", "p2": "vec3"}
    fn = synth(mod, "attenuation_step", ["self", "f", "dz", "attens", "p1", "p2"],
               [pre[0]] + list(loop.body) + [ast.Return(value=ast.Name(id="attens", ctx=ast.Load()))], loop)
    tr = ut.fn_class(mod, cname="UniformRayTracePath", record="UPath", consts=ut.consts)
    tr.lookup_member = ut.lookup
    ut.translate_def(fn, tr, "UniformRayTracePath_attenuation_step", has_self=True, pkey="attenuation_step")

    # ---- polarization basis + propagate (three classes, "both given" mode)
    prop_texts = {}
    for cname, rec, source_mod in (("BasicRayTracePath", "Path", mod), ("UniformRayTracePath", "UPath", mod)):
        c, node = source_mod.find_member(cname, "propagate")
        prop_texts[cname] = translate_propagate(source_mod, cname, rec, node, enum, basic=(cname == "BasicRayTracePath"))

    # ---- LayeredRayTracePath (other source file)
    mod2 = Module(repo, "pyrex/custom/layered_ice/ray_tracing.py", records=dict(records, LPath=UPATH_RECORD))
    lt = PropClassTr(mod2, "LayeredRayTracePath", record=None, enum=enum)
    c, node = mod2.find_member("LayeredRayTracePath", "fresnel")
    loop = find_for(node, mod2, "LayeredRayTracePath.fresnel")
    if ast.dump(loop.iter) != dump("zip(self.paths[:-1], self.paths[1:])"):
        mod2.err(loop, "unexpected loop header in LayeredRayTracePath.fresnel")
    body = list(loop.body)
    ifs = [s for s in body if isinstance(s, ast.If) and "emitted_direction" in ast.dump(s.test)]
    if len(ifs) != 1:
        mod2.err(loop, "reflection / transmission test not found")
    refl_test = dump("np.sign(path_1.received_direction[2]) != np.sign(path_2.emitted_direction[2])")
    if ast.dump(ifs[0].test) != refl_test:
        mod2.err(ifs[0], "unexpected reflection test")
    head = body[:body.index(ifs[0])]
    tail = body[body.index(ifs[0]) + 1:]
    if [ast.dump(s) for s in tail] != [ast.dump(x) for x in ast.parse("path_f_s, path_f_p = path_2.fresnel\nf_s *= path_f_s\nf_p *= path_f_p").body]:
        mod2.err(loop, "unexpected tail of the loop body")
    opaque = {dump("path_1.ice.index(path_1.to_point[2])"): ("n_1_in", "R"), dump("path_1.received_direction[2]"): ("rz1", "R")}
    for tag, arm in (("reflect", ifs[0].body), ("transmit", ifs[0].orelse)):
        arm_body = slice_from(list(arm), "sin_2")
        fn = synth(mod2, "fresnel_" + tag, ["self", "n_1_in", "n_2", "rz1", "f_s", "f_p"], head + arm_body + [ret_tuple(["f_s", "f_p"])], loop)
        lt.param_types["fresnel_" + tag] = {"f_s": "C", "f_p": "C"}
        lt.forced["fresnel_" + tag] = "tuple[C,C]"
        lt.opaque["fresnel_" + tag] = opaque
        tr = lt.fn_class(mod2, cname="LayeredRayTracePath", record=None, consts=lt.consts)
        tr.lookup_member = lt.lookup
        lt.translate_def(fn, tr, "LayeredRayTracePath_fresnel_" + tag, has_self=True, pkey="fresnel_" + tag)
    n2t = [s for s in ifs[0].orelse if isinstance(s, ast.Assign) and py2coq.names_of(s.targets[0]) == ["n_2"]]
    if len(n2t) != 1 or ast.dump(n2t[0].value) != dump("path_2.ice.index(path_2.from_point[2])"):
        mod2.err(ifs[0], "transmission n_2 is not the next layer's index at its start point")
    mod2.emit("Record LPath := mkLPath {\n  LPath_n0 : R;\n  LPath_phi : R;\n  LPath_tof : R;\n  LPath_ice : UIce;\n  LPath_emitted_direction : (R * R * R);\n  LPath_received_direction : (R * R * R)\n}.")
    c, node = mod2.find_member("LayeredRayTracePath", "propagate")
    translate_propagate(mod2, "LayeredRayTracePath", "LPath", node, enum, basic=False)

    text = py2coq.PRELUDE + PRELUDE_EXTRA + "\n\n".join(mod.out + mod2.out) + "\n"
    hashes = dict(mod.hashes)
    hashes.update(mod2.hashes)
    return text, hashes, shape


def translate_propagate(mod, cname, rec, node, enum, basic):
    """propagate(signal, polarization[, attenuation_interpolation]) with both arguments given.
    self.attenuation / self.fresnel / self.tof / directions are parameters of the result."""
    ct = PropClassTr(mod, cname, record=rec, enum=enum)
    body = [s for s in node.body if not (isinstance(s, ast.Expr) and isinstance(s.value, ast.Constant))]
    if len(body) != 1 or not isinstance(body[0], ast.If) or ast.dump(body[0].test) != dump("polarization is None"):
        mod.err(node, "%s.propagate: unexpected top-level shape" % cname)
    both = list(body[0].orelse)
    # the three basis statements, then `if signal is None: return (u_s0, u_p1) else: ...`
    basis = both[:4]
    want = ["u_s0 = normalize(np.cross(self.emitted_direction, [0, 0, 1]))",
            "if not np.any(u_s0):\n    u_s0 = np.array([np.sin(self.phi), -np.cos(self.phi), 0])",
            "u_p0 = normalize(np.cross(u_s0, self.emitted_direction))",
            "u_p1 = normalize(np.cross(u_s0, self.received_direction))"]
    if len(both) != 5 or not isinstance(both[4], ast.If) or ast.dump(both[4].test) != dump("signal is None"):
        mod.err(node, "%s.propagate: unexpected shape of the polarization branch (the vertical-ray case must be handled)" % cname)
    onlypol = both[4].body
    if len(onlypol) != 1 or ast.dump(onlypol[0]) != ast.dump(ast.parse("return (u_s0, u_p1)").body[0]):
        mod.err(node, "%s.propagate: the polarization-only branch does not return (u_s0, u_p1)" % cname)
    main = list(both[4].orelse)
    opaque = {dump("self.fresnel"): ("fresnel", "tuple[C,C]"), dump("self.tof"): ("(%s_tof self)" % rec, "R")}
    params = ["self", "signal", "polarization", "fresnel"]
    ptypes = {"signal": "sig", "polarization": "vec3", "fresnel": "tuple[C,C]"}
    if basic:
        # cut the frequency-grid preparation: freqs / atten_vals become parameters
        keep = []
        cut = []
        for s in main:
            tg = names_assigned(s)
            if any(t in ("freqs", "atten_vals", "logf", "logf_min", "logf_max", "n_steps") for t in tg):
                cut.append(s)
            else:
                keep.append(s)
        if len(cut) != 3:
            mod.err(node, "BasicRayTracePath.propagate: unexpected frequency-grid block (%d statements)" % len(cut))
        if ast.dump(cut[0]) != ast.dump(ast.parse("freqs = scipy.fft.fftfreq(2*len(signal.times), d=signal.dt)").body[0]) or \
                ast.dump(cut[2]) != ast.dump(ast.parse("atten_vals = self.attenuation(freqs)").body[0]) or \
                not (isinstance(cut[1], ast.If) and ast.dump(cut[1].test) == dump("attenuation_interpolation is None")):
            mod.err(node, "BasicRayTracePath.propagate: frequency-grid block changed")
        main = keep
        params += ["freqs", "atten_vals"]
        ptypes.update({"freqs": "listR", "atten_vals": "listR"})
    else:
        opaque[dump("self.attenuation(freqs)")] = ("(attenuation freqs)", "R")
        params += ["attenuation"]
        ptypes["attenuation"] = "fun"
    # polarization basis as its own function
    pb = synth(mod, "pol_basis", ["self", "polarization"],
               [copy.deepcopy(s) for s in basis] + [s for s in main if names_assigned(s) and names_assigned(s)[0] in ("pol_s", "pol_p")]
               + [ret_tuple(["u_s0", "u_p0", "u_p1", "pol_s", "pol_p"])], node)
    if [ast.dump(s) for s in basis] != [ast.dump(ast.parse(w).body[0]) for w in want]:
        mod.err(node, "%s.propagate: the polarization-vector construction changed" % cname)
    ct.param_types["pol_basis"] = {"polarization": "vec3"}
    tr = ct.fn_class(mod, cname=cname, record=rec, consts=ct.consts)
    tr.lookup_member = ct.lookup
    ct.translate_def(pb, tr, "%s_pol_basis" % cname, has_self=True, pkey="pol_basis")
    fn = synth(mod, "propagate_both", params, [copy.deepcopy(s) for s in basis] + main, node)
    ct.param_types["propagate_both"] = ptypes
    ct.opaque["propagate_both"] = opaque
    tr = ct.fn_class(mod, cname=cname, record=rec, consts=ct.consts)
    tr.lookup_member = ct.lookup
    ct.translate_def(fn, tr, "%s_propagate_both" % cname, has_self=True, pkey="propagate_both")


if __name__ == "__main__":
    t, h, s = generate(sys.argv[1])
    print(t)
