"""C05: frequency filtering is linear, real-preserving, passive and free of wrap-around.

prove : Props/C05.v (DFT theory Lib/DFT.v, model Model/FilterModel.v)
corr  : the extracted O(N^2) model (OCaml floats) against Signal.filter_frequencies,
        FunctionSignal (one and several filters), Signal.spectrum / .frequencies
search: the metamorphic relations of the property on the implementation itself
"""
import logging
import math
import os

import numpy as np

from harness import common, dft_extract
from harness.dft_extract import hexs, parse_floats

EPS = 2.0 ** -52
logging.getLogger("pyrex").setLevel(logging.ERROR)   # the 'imaginary part discarded' warning is expected
KIND_NAMES = {0: "unit", 1: "pure-delay", 2: "one-pole-lowpass", 3: "scalar-only", 4: "complex-positive-frequency-only",
              5: "constant-complex-gain", 6: "lorentz(a,b)"}


# ----------------------------------------------------------------------------- responses
def py_response(kind, p1, p2, p3):
    """The response functions of the correspondence, written with the same operation order
    as harness/ocaml/c05_driver.ml."""
    if kind == 0:
        return lambda f: np.ones(np.shape(f)) + 0j
    if kind == 1:
        def delay(f):
            th = -2 * np.pi * f * p1
            return np.cos(th) + 1j * np.sin(th)
        return delay
    if kind == 2:
        def one_pole(f):
            r = f / p1
            d = 1.0 + r * r
            return (1.0 / d) + 1j * ((-r) / d)
        return one_pole
    if kind == 3:
        def scalar_only(f):
            f = float(f)          # TypeError for arrays: exercises the scalar fall-back
            r = f / p1
            d = 1.0 + r * r
            return complex(1.0 / d, (0.5 * r) / d)
        return scalar_only
    if kind == 4:
        def positive_only(f):
            f = np.asarray(f, dtype=float)
            r = f / p1
            with np.errstate(invalid="ignore", divide="ignore"):
                s = r / (1.0 + r)
            out = (p2 * s) + 1j * (p3 * s)
            return np.where(f > 0, out, 0j)
        return positive_only
    if kind == 5:
        return lambda f: np.full(np.shape(f), complex(p1, p2))
    if kind == 6:
        def lorentz(f):
            r = f / p1
            d = 1.0 + r * r
            return (p2 / d) + 1j * ((p3 * r) / d)
        return lorentz
    raise ValueError(kind)


def hmax(kind, p1, p2, p3):
    if kind in (0, 1, 2):
        return 1.0
    if kind == 3:
        return 1.0
    if kind == 4:
        return math.hypot(p2, p3)
    if kind == 5:
        return math.hypot(p1, p2)
    return max(abs(p2), abs(p3), math.hypot(p2, p3))


import random as _random
READS = _random.Random(0)      # re-seeded from the check's seed in run(); "always" in replays
READ_MODE = ["random"]


def maybe_read(sig):
    """Every application of a filter in this check runs in one of the orders  filter -> read,
    read -> filter -> read, read -> filter -> filter -> read (reads are .values, .spectrum, .envelope,
    .frequencies): a filter must act on what is read afterwards whether or not the object was read before."""
    u = 0.0 if READ_MODE[0] == "always" else READS.random()
    if u < 0.35:
        np.asarray(sig.values)
    elif u < 0.45:
        np.asarray(sig.spectrum)
    elif u < 0.5:
        np.asarray(sig.envelope)
        np.asarray(sig.frequencies)


def impl_filter(times, values, g, fr):
    import pyrex
    s = pyrex.Signal(np.array(times, dtype=float), np.array(values, dtype=float))
    maybe_read(s)
    s.filter_frequencies(g, force_real=bool(fr))
    return np.array(s.values, dtype=float)


def impl_function_signal(times, values, filters):
    import pyrex
    vals = np.array(values, dtype=float)
    fs = pyrex.FunctionSignal(np.array(times, dtype=float), lambda t: vals.copy())
    for g, fr in filters:
        maybe_read(fs)
        fs.filter_frequencies(g, force_real=bool(fr))
    return np.array(fs.values, dtype=float)


STORED_MODES = ["complex128-array", "complex128-view", "float64-array", "list-of-complex", "list-of-float"]


class StoredResponse:
    """A response that keeps what it returns: gains tabulated / memoised per frequency array, handed out again
    on every later call (complex128 array, a view into a larger table, float64 array, Python lists).  As a
    function of frequency it is exactly py_response(kind, p) - a pure function - so every application must give
    what the model gives for that pure function, however often the same object has been used before, and the
    stored tables must come back unmodified."""
    def __init__(self, kind, p, mode):
        self.kind, self.p, self.mode = kind, tuple(p), mode
        self.base = py_response(kind, *p)
        self.store, self.pristine, self.calls = {}, {}, 0
        self.__name__ = "stored_response[%s]" % mode

    def __call__(self, f):
        self.calls += 1
        f = np.asarray(f, dtype=float)
        if f.ndim == 0:
            return complex(np.asarray(self.base(np.array([float(f)])), dtype=complex)[0])
        key = f.tobytes()
        if key not in self.store:
            v = np.array(self.base(f), dtype=np.complex128)
            if self.mode == "complex128-array":
                t = v.copy()
            elif self.mode == "complex128-view":
                big = np.zeros(2 * len(v) + 3, dtype=np.complex128)
                big[1:len(v) + 1] = v
                t = big[1:len(v) + 1]
            elif self.mode == "float64-array":
                t = v.real.copy()
            elif self.mode == "list-of-complex":
                t = [complex(z) for z in v]
            else:
                t = [float(z.real) for z in v]
            self.store[key] = t
            self.pristine[key] = np.array(t, dtype=np.complex128).copy()
        return self.store[key]

    def unmodified(self):
        return all(np.array_equal(np.array(self.store[k], dtype=np.complex128), self.pristine[k]) for k in self.store)


def gen_stored(rng, n, dt):
    """(kind, p, mode): real-valued storage only for responses without imaginary part."""
    mode = rng.choice(STORED_MODES)
    fny = 0.5 / dt
    if mode in ("float64-array", "list-of-float"):
        kind, p = rng.choice([(6, (fny * 10.0 ** rng.uniform(-2, 0.5), rng.uniform(-2, 2), 0.0)), (5, (rng.uniform(-2, 2), 0.0, 0.0))])
    else:
        while True:
            kind, p1, p2, p3 = gen_response(rng, n, dt)
            if kind in (1, 2, 4, 5, 6):
                p = (p1, p2, p3)
                break
    return kind, p, mode


def gen_history(rng, n, times):
    """One stored response applied several times: F(a), F(b), F(a+b), F(3a), F(a) again ..., through Signal and
    FunctionSignal, with and without force_real in the same history."""
    dt = times[1] - times[0]
    kind, p, mode = gen_stored(rng, n, dt)
    a, b = np.array(gen_values(rng, n)), np.array(gen_values(rng, n))
    seq = [a, b, a + b, 3.0 * a, a]
    rng.shuffle(seq)
    seq = seq[:rng.randint(3, 5)]
    fr0 = rng.randint(0, 1)
    steps = []
    for i, v in enumerate(seq):
        fr = fr0 if rng.random() < 0.7 else 1 - fr0
        steps.append({"target": rng.choice(["signal", "function"]), "fr": fr, "values": [float(x) for x in v]})
    return {"op": "history", "n": n, "times": times, "kind": kind, "p": p, "mode": mode, "steps": steps, "values": steps[0]["values"]}


def step_case(c, st):
    if st["target"] == "signal":
        return {"op": "filter", "n": c["n"], "times": c["times"], "values": st["values"], "fr": st["fr"], "kind": c["kind"], "p": tuple(c["p"])}
    return {"op": "apply", "n": c["n"], "times": c["times"], "values": st["values"], "filters": [(c["kind"], tuple(c["p"]), st["fr"])]}


def run_history(c):
    """Apply ONE StoredResponse object step after step.  Returns ([output arrays], tables unmodified?, [tolerances])."""
    g = StoredResponse(c["kind"], c["p"], c["mode"])
    outs, tols = [], []
    for st in c["steps"]:
        if st["target"] == "signal":
            outs.append(impl_filter(c["times"], st["values"], g, st["fr"]))
        else:
            outs.append(impl_function_signal(c["times"], st["values"], [(g, st["fr"])]))
        tols.append(1e-9 * max([abs(v) for v in st["values"]] + [0.0]) * max(1.0, hmax(c["kind"], *c["p"])) + tol_floor(c["n"]))
    return outs, g.unmodified(), tols


# ----------------------------------------------------------------------------- generators
def gen_grid(rng, nmax, nmin=2):
    u = rng.random()
    if u < 0.4:
        n = rng.randint(nmin, min(16, nmax))
    elif u < 0.8:
        n = rng.randint(min(17, nmax), min(64, nmax))
    else:
        n = rng.randint(min(65, nmax), nmax)
    if rng.random() < 0.5:
        dt = 10.0 ** rng.uniform(-10, 0)
    else:
        dt = rng.randint(1, 7) * 2.0 ** -rng.randint(0, 33)
    v = rng.random()
    if v < 0.3:
        t0 = 0.0
    elif v < 0.6:
        t0 = rng.uniform(-1, 1) * 10.0 ** rng.uniform(-9, 3)
    elif v < 0.8:
        t0 = rng.randint(-1000, 1000) * dt
    else:
        t0 = rng.uniform(-50, 50) * n * dt
    times = [t0 + i * dt for i in range(n)]
    if not times[1] - times[0] > 0:
        times = [i * dt for i in range(n)]
    return n, times


TINY = 5e-324


def gen_values(rng, n):
    """Sample values with amplitude scales from 1e-15 to 1e15 (field traces of 1e-9 V/m are ordinary here), plus
    signals entirely below 1e-8, with one sample just above it, exactly zero, very small normal and subnormal."""
    v = gen_shape(rng, n)
    u = rng.random()
    m = max([abs(x) for x in v] + [0.0])
    if u < 0.45 or m == 0:
        return v
    if u < 0.75:
        s = rng.choice([10.0 ** rng.randint(-15, 15), 2.0 ** rng.randint(-50, 50), 10.0 ** rng.uniform(-15, 15)])
        return [x * s for x in v]
    if u < 0.85:                                   # everything below numpy's default absolute tolerance 1e-8
        s = 10.0 ** rng.uniform(-13, -8) / m
        return [x * s * 0.999 for x in v]
    if u < 0.9:                                    # ... except one sample just above it
        s = 1e-9 / m
        w = [x * s for x in v]
        w[rng.randrange(n)] = rng.choice([-1, 1]) * 1.5e-8
        return w
    if u < 0.93:
        return [0.0] * n
    if u < 0.97:
        s = 10.0 ** rng.randint(-300, -200) / m
        return [x * s for x in v]
    return [float(rng.randint(-2 ** 20, 2 ** 20)) * TINY * 2.0 ** rng.randint(0, 20) for _ in range(n)]   # subnormal


def snorm(v):
    """2-norm without underflow / overflow of the squares (samples range from subnormal to 1e15)."""
    v = np.asarray(v, dtype=float)
    m = float(np.max(np.abs(v))) if v.size else 0.0
    if m == 0.0 or not np.isfinite(m):
        return m
    return m * float(np.sqrt(np.sum((v / m) ** 2)))


def tol_floor(n):
    """Absolute floor of the tolerances: subnormal samples carry an absolute error of one subnormal unit per
    operation in the O(N) sums of either side."""
    return 64.0 * (2 * n) ** 2 * TINY


def gen_shape(rng, n):
    u = rng.random()
    if u < 0.5:
        return [rng.gauss(0, 1) * 10.0 ** rng.choice([-6, 0, 0, 3]) for _ in range(n)]
    if u < 0.7:
        return [float(rng.randint(-8, 8)) for _ in range(n)]
    if u < 0.85:
        v = [0.0] * n
        for _ in range(rng.randint(1, 3)):
            v[rng.randrange(n)] = float(rng.randint(-4, 4) or 1)
        return v
    if u < 0.95:
        c = rng.uniform(-2, 2)
        return [c] * n
    return [math.sin(0.7 * i) + 0.25 * rng.random() for i in range(n)]


def gen_response(rng, n, dt):
    """(kind, p1, p2, p3).  dt is the actual times[1]-times[0]."""
    fny = 0.5 / dt
    kind = rng.choice([0, 1, 1, 2, 2, 3, 3, 4, 4, 5, 6, 6])
    if kind == 1:
        if rng.random() < 0.7:
            tau = rng.randint(0, n) * dt          # whole samples, up to the full window
        else:
            tau = rng.uniform(-1, n + 1) * dt     # fractional / slightly outside
        return kind, tau, 0.0, 0.0
    if kind in (2, 3):
        return kind, fny * 10.0 ** rng.uniform(-2, 0.5), 0.0, 0.0
    if kind == 4:
        return kind, fny * 10.0 ** rng.uniform(-2, 0.5), rng.uniform(-2, 2), rng.uniform(-2, 2)
    if kind == 5:
        return kind, rng.uniform(-2, 2), rng.uniform(-2, 2), 0.0
    if kind == 6:
        return kind, fny * 10.0 ** rng.uniform(-2, 0.5), rng.uniform(-2, 2), rng.uniform(-2, 2)
    return 0, 0.0, 0.0, 0.0


def case_line(c):
    if c["op"] == "filter":
        return "filter %d %d %s %d %s %s" % (c["fr"], c["kind"], hexs(c["p"]), c["n"], hexs(c["times"]), hexs(c["values"]))
    if c["op"] == "apply":
        fl = " ".join("%d %s %d" % (k, hexs(p), fr) for (k, p, fr) in c["filters"])
        return "apply %s %d %s %d %s" % (float(c["times"][1] - c["times"][0]).hex(), len(c["filters"]), fl, c["n"], hexs(c["values"]))
    if c["op"] == "fft":
        return "fft %d %s" % (c["n"], " ".join("%s 0x0p+0" % float(v).hex() for v in c["values"]))
    if c["op"] == "freq":
        return "freq %d %s" % (c["n"], float(c["times"][1] - c["times"][0]).hex())
    raise ValueError(c["op"])


def case_lines(c):
    if c["op"] == "history":
        return [case_line(step_case(c, st)) for st in c["steps"]]
    if c["op"] == "trace":
        return [trace_line(c)]
    if c["op"] == "mg":
        return [mg_line(c)]
    return [case_line(c)]


def run_impl(c):
    """Returns (array of floats, tolerance)."""
    import pyrex
    xmax = max([abs(v) for v in c["values"]] + [0.0])
    if c["op"] == "filter":
        g = py_response(c["kind"], *c["p"])
        out = impl_filter(c["times"], c["values"], g, c["fr"])
        return out, 1e-9 * xmax * max(1.0, hmax(c["kind"], *c["p"])) + tol_floor(c["n"])
    if c["op"] == "apply":
        fl = [(py_response(k, *p), fr) for (k, p, fr) in c["filters"]]
        out = impl_function_signal(c["times"], c["values"], fl)
        h = 1.0
        for (k, p, fr) in c["filters"]:
            h *= max(1.0, hmax(k, *p))
        return out, 1e-9 * xmax * h + tol_floor(c["n"])
    s = pyrex.Signal(np.array(c["times"]), np.array(c["values"]))
    if c["op"] == "fft":
        sp = np.asarray(s.spectrum)
        return np.column_stack((sp.real, sp.imag)).ravel(), 1e-9 * xmax * c["n"] + tol_floor(c["n"])
    if c["op"] == "freq":
        return np.asarray(s.frequencies, dtype=float), 0.0
    raise ValueError(c["op"])


def short(c):
    d = {k: c[k] for k in ("op", "n", "fr", "kind", "p", "filters", "mode", "target") if k in c}
    if c["op"] == "trace":
        d["ops"] = describe_ops(c)
    if c["op"] == "mg":
        d["program"] = describe_mg(c)
    if c["op"] == "history":
        d["steps"] = [(st["target"], "force_real" if st["fr"] else "plain") for st in c["steps"]]
    if "kind" in d:
        d["response"] = KIND_NAMES[d["kind"]]
    d["dt"] = c["times"][1] - c["times"][0]
    d["t0"] = c["times"][0]
    d["values_head"] = c["values"][:4]
    return d


def gen_cases(ctx, count):
    rng = ctx.rng
    cases = []
    nmax = 257
    # deterministic corners first: odd/even smallest lengths, full-window delay, Nyquist handling
    for n in (2, 3, 4, 5, 8, 9):
        times = [i * 0.5 for i in range(n)]
        vals = [float(i + 1) for i in range(n)]
        for fr in (0, 1):
            cases.append({"op": "filter", "n": n, "times": times, "values": vals, "fr": fr, "kind": 1, "p": (0.5 * (n // 2), 0.0, 0.0)})
            cases.append({"op": "filter", "n": n, "times": times, "values": vals, "fr": fr, "kind": 6, "p": (0.4, 1.0, 1.5)})
            cases.append({"op": "filter", "n": n, "times": times, "values": vals, "fr": fr, "kind": 5, "p": (0.5, 1.25, 0.0)})
    while len(cases) < count:
        n, times = gen_grid(rng, nmax)
        dt = times[1] - times[0]
        vals = gen_values(rng, n)
        u = rng.random()
        if u < 0.1:
            cases.append(gen_trace(rng, n, times))
            continue
        if u < 0.2:
            cases.append(gen_mg(rng, min(n, 96), times[:min(n, 96)]))
            continue
        u = rng.random()
        if u < 0.14:
            cases.append(gen_history(rng, n, times))
        elif u < 0.7:
            k, p1, p2, p3 = gen_response(rng, n, dt)
            cases.append({"op": "filter", "n": n, "times": times, "values": vals, "fr": rng.randint(0, 1), "kind": k, "p": (p1, p2, p3)})
        elif u < 0.9:
            fl = []
            for _ in range(rng.choice([1, 1, 2, 3])):
                k, p1, p2, p3 = gen_response(rng, n, dt)
                fl.append((k, (p1, p2, p3), rng.randint(0, 1)))
            cases.append({"op": "apply", "n": n, "times": times, "values": vals, "filters": fl})
        elif u < 0.96:
            cases.append({"op": "fft", "n": n, "times": times, "values": vals})
        else:
            cases.append({"op": "freq", "n": n, "times": times, "values": vals})
    return cases


class Limiter:
    """Report at most `per` failures per category (smallest signals first come from the generator order);
    the rest are only counted."""
    def __init__(self, ctx, per=2, total=8):
        self.ctx, self.per, self.total, self.seen, self.n, self.suppressed = ctx, per, total, {}, 0, 0

    def fail(self, cat, key, what, obj):
        self.seen[cat] = self.seen.get(cat, 0) + 1
        if self.seen[cat] > self.per or self.n >= self.total:
            self.suppressed += 1
            return
        self.n += 1
        self.ctx.fail(key, what, obj)


def correspondence(ctx, exe, count):
    lim = Limiter(ctx)
    cases = []
    cdir = os.path.join(common.ROOT, "corpus", "C05")
    if os.path.isdir(cdir):
        import json
        for f in sorted(os.listdir(cdir)):
            if f.endswith(".json"):
                c = json.load(open(os.path.join(cdir, f)))
                c = c.get("replay", c).get("case", c.get("replay", c))
                if "op" in c:
                    c["p"] = tuple(c.get("p", (0, 0, 0)))
                    cases.append(c)
    cases += gen_cases(ctx, count)
    lines, span = [], []
    for c in cases:
        ls = case_lines(c)
        span.append((len(lines), len(lines) + len(ls)))
        lines += ls
    try:
        all_outs = dft_extract.run_lines(exe, lines)
    except Exception as e:
        ctx.oblige("corr:model-run", False, str(e)[-800:])
        return
    bad = 0
    worst = 0.0
    dist = {}
    for c, (lo, hi) in zip(cases, span):
        if c["op"] == "history":
            tag = "history:%s:%s" % (KIND_NAMES[c["kind"]], c["mode"])
            dist[tag] = dist.get(tag, 0) + 1
            ctx.case(key=("history", c["n"], c["kind"], c["mode"], str(c["p"]), hexs(c["values"][:6]), str([(st["target"], st["fr"]) for st in c["steps"]])),
                     nontrivial=True, sample=short(c))
            models = [np.array(parse_floats(o), dtype=float) for o in all_outs[lo:hi]]
            try:
                impls, intact, tols = run_history(c)
            except Exception as e:
                bad += 1
                lim.fail(tag, "corr:%s:n=%d:exception" % (tag, c["n"]), "re-applying a stored response raised %s: %s; case %s" % (type(e).__name__, e, short(c)),
                         {"kind": "corr", "case": c})
                continue
            for i, (im, mo, tol) in enumerate(zip(impls, models, tols)):
                d = float(np.max(np.abs(im - mo))) if im.shape == mo.shape and len(im) else (0.0 if im.shape == mo.shape else float("inf"))
                if tol > 0 and d < float("inf"):
                    worst = max(worst, d / tol)
                if not d <= tol:
                    bad += 1
                    lim.fail(tag, "corr:%s:n=%d:step=%d" % (tag, c["n"], i),
                             "application %d of the SAME stored response (%s via %s, force_real=%d) differs from the model of the pure response: |impl-model|=%.3g > %.3g "
                             "(the result depends on how often the response object was used before, or on whether the signal was read before it was filtered); case %s"
                             % (i + 1, c["mode"], c["steps"][i]["target"], c["steps"][i]["fr"], d, tol, short(c)), {"kind": "corr", "case": c, "step": i})
                    break
            if not intact:
                bad += 1
                lim.fail(tag + ":table", "corr:%s:n=%d:table-modified" % (tag, c["n"]),
                         "filtering modified the caller's stored response table (%s); case %s" % (c["mode"], short(c)), {"kind": "corr", "case": c})
            continue
        if c["op"] == "mg":
            tag = "sum-of-FunctionSignals"
            dist[tag] = dist.get(tag, 0) + 1
            ctx.case(key=("mg", c["n"], describe_mg(c), hexs(c["values"][:6])), nontrivial=True, sample=short(c))
            flat = np.array(parse_floats(all_outs[lo]), dtype=float)
            try:
                impls, tols = run_mg(c)
            except Exception as e:
                bad += 1
                lim.fail(tag, "corr:%s:n=%d:exception" % (tag, c["n"]), "program on FunctionSignal sums raised %s: %s; case %s" % (type(e).__name__, e, short(c)), {"kind": "corr", "case": c})
                continue
            if len(flat) != len(impls) * c["n"]:
                bad += 1
                lim.fail(tag, "corr:%s:n=%d:shape" % (tag, c["n"]), "model produced %d values for %d reads; case %s" % (len(flat), len(impls), short(c)), {"kind": "corr", "case": c})
                continue
            for i, (im, tol) in enumerate(zip(impls, tols)):
                mo = flat[i * c["n"]:(i + 1) * c["n"]]
                d = float(np.max(np.abs(im - mo))) if im.shape == mo.shape else float("inf")
                if tol > 0 and d < float("inf"):
                    worst = max(worst, d / tol)
                if not d <= tol:
                    bad += 1
                    lim.fail(tag, "corr:%s:n=%d:read=%d" % (tag, c["n"], i),
                             "sums of FunctionSignals whose terms carry different filter chains: read %d of the program [%s] differs from the model "
                             "(sum over the terms, each with its own factor and filters): |impl-model|=%.3g > %.3g" % (i + 1, describe_mg(c, i), d, tol),
                             {"kind": "corr", "case": c, "read_index": i})
                    break
            continue
        if c["op"] == "trace":
            tag = "trace:%s" % ("FunctionSignal" if c["target"] == "fs" else "Signal")
            dist[tag] = dist.get(tag, 0) + 1
            ctx.case(key=("trace", c["target"], c["n"], str(c["ops"]), hexs(c["values"][:6])), nontrivial=any(v != 0 for v in c["values"]), sample=short(c))
            flat = np.array(parse_floats(all_outs[lo]), dtype=float)
            try:
                impls, tols = run_trace(c)
            except Exception as e:
                bad += 1
                lim.fail(tag, "corr:%s:n=%d:exception" % (tag, c["n"]), "op history raised %s: %s; case %s" % (type(e).__name__, e, short(c)), {"kind": "corr", "case": c})
                continue
            for i, (im, tol) in enumerate(zip(impls, tols)):
                mo = flat[i * c["n"]:(i + 1) * c["n"]]
                d = float(np.max(np.abs(im - mo))) if im.shape == mo.shape else float("inf")
                if tol > 0 and d < float("inf"):
                    worst = max(worst, d / tol)
                if not d <= tol:
                    bad += 1
                    lim.fail(tag, "corr:%s:n=%d:op=%d" % (tag, c["n"], i),
                             "one %s object, history [%s]: .values after op %d differs from the model state machine: |impl-model|=%.3g > %.3g "
                             "(impl %r, model %r at the worst sample)" % (tag.split(":")[1], describe_ops(c, i + 1), i + 1, d, tol,
                             im[int(np.argmax(np.abs(im - mo)))] if im.shape == mo.shape else None, mo[int(np.argmax(np.abs(im - mo)))] if im.shape == mo.shape else None),
                             {"kind": "corr", "case": c, "op_index": i})
                    break
            continue
        o = all_outs[lo]
        model = np.array(parse_floats(o), dtype=float)
        try:
            impl, tol = run_impl(c)
        except Exception as e:
            impl, tol = None, 0.0
            err = "%s: %s" % (type(e).__name__, e)
        tag = c["op"] + (":" + KIND_NAMES[c["kind"]] if "kind" in c else "") + (":force_real" if c.get("fr") else "")
        dist[tag] = dist.get(tag, 0) + 1
        nontriv = any(v != 0 for v in c["values"]) and not (c["op"] == "filter" and c["kind"] == 0)
        ctx.case(key=(c["op"], c["n"], c.get("kind"), c.get("fr"), hexs(c["values"][:8]), c["times"][0], str(c.get("p", c.get("filters")))),
                 nontrivial=nontriv, sample=short(c))
        if impl is None:
            bad += 1
            lim.fail(tag, "corr:%s:n=%d:exception" % (tag, c["n"]), "implementation raised on a valid input: %s; case %s" % (err, short(c)),
                     {"kind": "corr", "case": c})
            continue
        if impl.shape != model.shape:
            bad += 1
            lim.fail(tag, "corr:%s:n=%d:shape" % (tag, c["n"]), "output length differs: implementation %s model %s; case %s" % (impl.shape, model.shape, short(c)),
                     {"kind": "corr", "case": c})
            continue
        d = float(np.max(np.abs(impl - model))) if len(impl) else 0.0
        if tol > 0:
            worst = max(worst, d / tol)
        if not d <= tol:
            bad += 1
            i = int(np.argmax(np.abs(impl - model)))
            lim.fail(tag, "corr:%s:n=%d" % (tag, c["n"]),
                     "Signal filter differs from the proved model: |impl-model|=%.3g > tol %.3g at sample %d (impl %.17g, model %.17g); case %s"
                     % (d, tol, i, impl[i], model[i], short(c)), {"kind": "corr", "case": c})
    ctx.oblige("corr:filter-model-vs-implementation", bad == 0, "%d of %d cases disagree" % (bad, len(cases)))
    ctx.extra["correspondence"] = {"cases": len(cases), "disagreements": bad, "distribution": dist,
                                   "worst_difference_over_tolerance": worst,
                                   "tolerance": "1e-9 * max|x| * max(1, max|H|) per sample (spectrum: * N; frequencies: exact); histories: every application of one stored response object against the model of the pure response, tables unmodified"}


# ----------------------------------------------------------------------------- op histories on ONE object
def gen_trace(rng, n, times):
    """A history of operations on ONE signal object: filters, in-place scalings, reads of the lazily cached
    properties, copies / re-gridding onto the same times; .values is read (and compared) after every op."""
    dt = times[1] - times[0]
    ops = []
    for _ in range(rng.randint(3, 7)):
        u = rng.random()
        if u < 0.35:
            while True:
                k, p1, p2, p3 = gen_response(rng, n, dt)
                if k != 3 or rng.random() < 0.3:
                    break
            ops.append(["F", k, [p1, p2, p3], rng.randint(0, 1)])
        elif u < 0.55:
            ops.append(["S", rng.choice([2.0, 0.5, -3.0, 10.0 ** rng.randint(-6, 6), rng.uniform(-4, 4) or 1.5])])
        elif u < 0.7:
            ops.append(["D", rng.choice([2.0, 0.25, -5.0, 10.0 ** rng.randint(-6, 6), rng.uniform(0.2, 4)])])
        elif u < 0.85:
            ops.append(["R", rng.choice(["spectrum", "envelope", "values", "frequencies"])])
        else:
            ops.append(["R", rng.choice(["copy", "with_times"])])
    return {"op": "trace", "target": rng.choice(["fs", "fs", "sg"]), "n": n, "times": times, "values": gen_values(rng, n), "ops": ops}


def trace_line(c):
    parts = []
    for o in c["ops"]:
        if o[0] == "F":
            parts.append("F %d %s %d" % (o[1], hexs(o[2]), o[3]))
        elif o[0] in ("S", "D"):
            parts.append("%s %s" % (o[0], hexs([o[1]])))
        else:
            parts.append("R")
    return "trace %s %d %s %d %s %s" % (c["target"], len(c["ops"]), " ".join(parts), c["n"], hexs(c["times"]), hexs(c["values"]))


def run_trace(c):
    """The history on the real object; returns ([values after each op], [tolerance after each op])."""
    import pyrex
    t = np.array(c["times"], dtype=float)
    vals = np.array(c["values"], dtype=float)
    sig = pyrex.FunctionSignal(t, lambda tt: vals.copy()) if c["target"] == "fs" else pyrex.Signal(t, vals.copy())
    np.asarray(sig.values)
    outs, tols = [], []
    scale = max([abs(v) for v in c["values"]] + [0.0])
    for o in c["ops"]:
        if o[0] == "F":
            sig.filter_frequencies(py_response(o[1], *o[2]), force_real=bool(o[3]))
            scale *= max(1.0, hmax(o[1], *o[2]))
        elif o[0] == "S":
            sig *= o[1]
            scale *= abs(o[1])
        elif o[0] == "D":
            sig /= o[1]
            scale /= abs(o[1])
        elif o[1] == "copy":
            sig = sig.copy()
        elif o[1] == "with_times":
            sig = sig.with_times(np.array(c["times"], dtype=float))
        else:
            np.asarray(getattr(sig, o[1]))
        outs.append(np.array(sig.values, dtype=float))
        tols.append(1e-9 * scale + tol_floor(c["n"]))
    return outs, tols


def describe_ops(c, upto=None):
    names = []
    for o in c["ops"][:upto]:
        names.append({"F": "filter(%s%s)" % (KIND_NAMES.get(o[1], "?") if o[0] == "F" else "", ",force_real" if o[0] == "F" and o[3] else ""),
                      "S": "*= %r" % (o[1],), "D": "/= %r" % (o[1],), "R": "read %s" % o[1]}[o[0]])
    return " ; ".join(names)


# ----------------------------------------------------------------------------- sums of FunctionSignals with different filter chains
def gen_mg(rng, n, times):
    """A program for the stack machine over FunctionSignal objects: push new one-term signals, filter / scale the topmost,
    add the two topmost (second + top; the operand order is random through the push order), read.  Terms reach a sum
    with DIFFERENT filter chains (also: unfiltered first, filtered later), and sums are filtered again and extended."""
    dt = times[1] - times[0]
    ops, depth, adds = [], 0, 0
    for step in range(rng.randint(7, 14)):
        choices = []
        if depth < 3:
            choices += ["P", "P"]
        if depth >= 2:
            choices += ["A", "A", "A"]
        if depth >= 1:
            choices += ["F", "F", "S", "D", "R", "R"]
        o = rng.choice(choices)
        if o == "P":
            ops.append(["P", gen_values(rng, n)])
            depth += 1
        elif o == "A":
            ops.append(["A", rng.choice(["+", "sum"])])
            ops.append(["R"])
            depth -= 1
            adds += 1
        elif o == "F":
            while True:
                k, p1, p2, p3 = gen_response(rng, n, dt)
                if k != 3:
                    break
            ops.append(["F", k, [p1, p2, p3], rng.randint(0, 1)])
        elif o == "S":
            ops.append(["S", rng.choice([2.0, 0.5, -3.0, rng.uniform(0.2, 4)])])
        elif o == "D":
            ops.append(["D", rng.choice([2.0, 0.25, -5.0, rng.uniform(0.2, 4)])])
        else:
            ops.append(["R"])
    while depth >= 2:
        ops.append(["A", "+"])
        depth -= 1
    if depth >= 1:
        ops.append(["R"])
    first = next(o[1] for o in ops if o[0] == "P")
    return {"op": "mg", "n": n, "times": times, "ops": ops, "values": first}


def mg_line(c):
    parts = []
    for o in c["ops"]:
        if o[0] == "P":
            parts.append("P %s" % hexs(o[1]))
        elif o[0] == "F":
            parts.append("F %d %s %d" % (o[1], hexs(o[2]), o[3]))
        elif o[0] in ("S", "D"):
            parts.append("%s %s" % (o[0], hexs([o[1]])))
        else:
            parts.append(o[0])
    return "mg %d %d %s %s" % (len(c["ops"]), c["n"], " ".join(parts), hexs(c["times"]))


def run_mg(c):
    """The program on real FunctionSignal objects; returns ([values at each read], [tolerances])."""
    import pyrex
    t = np.array(c["times"], dtype=float)
    stack, scales, outs, tols = [], [], [], []
    for o in c["ops"]:
        if o[0] == "P":
            v = np.array(o[1], dtype=float)
            stack.append(pyrex.FunctionSignal(t.copy(), (lambda vv: (lambda tt: vv.copy()))(v)))
            scales.append(max([abs(x) for x in o[1]] + [0.0]))
        elif o[0] == "A":
            if len(stack) >= 2:
                b, a = stack.pop(), stack.pop()
                sb, sa = scales.pop(), scales.pop()
                stack.append(a + b if o[1] == "+" else sum([a, b]))
                scales.append(sa + sb)
        elif not stack:
            continue
        elif o[0] == "F":
            maybe_read(stack[-1])
            stack[-1].filter_frequencies(py_response(o[1], *o[2]), force_real=bool(o[3]))
            scales[-1] *= max(1.0, hmax(o[1], *o[2]))
        elif o[0] == "S":
            stack[-1] *= o[1]
            scales[-1] *= abs(o[1])
        elif o[0] == "D":
            stack[-1] /= o[1]
            scales[-1] /= abs(o[1])
        else:
            outs.append(np.array(stack[-1].values, dtype=float))
            tols.append(1e-9 * scales[-1] + tol_floor(c["n"]))
    return outs, tols


def describe_mg(c, upto_read=None):
    names, reads = [], 0
    for o in c["ops"]:
        names.append({"P": "push", "A": "add(%s)" % (o[1] if o[0] == "A" else ""), "F": "filter(%s%s)" % (KIND_NAMES.get(o[1], "?") if o[0] == "F" else "", ",force_real" if o[0] == "F" and o[3] else ""),
                      "S": "*=%r" % (o[1] if o[0] == "S" else 0,), "D": "/=%r" % (o[1] if o[0] == "D" else 0,), "R": "READ"}[o[0]])
        if o[0] == "R":
            reads += 1
            if upto_read is not None and reads > upto_read:
                break
    return " ".join(names)


# ----------------------------------------------------------------------------- derived FunctionSignals
def derived_eval(n, times, x, y, resp, fr, q, verbose=False):
    """Filtering a signal DERIVED from a FunctionSignal (copy, scalar multiple, sum, EmptySignal sum, with_times)
    must not filter the original: afterwards the original under the unit response is still itself (identity
    clause) and F(a) + F(b) = F(a + b) also when the sum object is filtered before the operands (linearity).
    Oracle: plain Signal objects holding the same samples."""
    import pyrex
    t = np.array(times, dtype=float)
    xa, ya = np.array(x, dtype=float), np.array(y, dtype=float)
    g = py_response(int(resp[0]), *resp[1:])
    a = pyrex.FunctionSignal(t.copy(), lambda tt: xa.copy())
    b = pyrex.FunctionSignal(t.copy(), lambda tt: ya.copy())
    expect_a = xa
    h = hmax(int(resp[0]), *resp[1:])
    if q.get("pre"):
        gp = py_response(int(q["pre"][0]), *q["pre"][1:4])
        a.filter_frequencies(gp, force_real=bool(q["pre"][4]))
        expect_a = impl_filter(times, x, gp, q["pre"][4])
        h *= max(1.0, hmax(int(q["pre"][0]), *q["pre"][1:4]))
    maybe_read(a)
    kind = q["derive"]
    tol = 6 * probe_tol(n, snorm(xa) + snorm(ya), h * h)
    if kind == "sum-first":
        s_ = a + b
        s_.filter_frequencies(g, force_real=bool(fr))
        fsum = np.asarray(s_.values, dtype=float)
        maybe_read(a)
        a.filter_frequencies(g, force_real=bool(fr))
        b.filter_frequencies(g, force_real=bool(fr))
        fa, fb = np.asarray(a.values, dtype=float), np.asarray(b.values, dtype=float)
        pa = impl_filter(times, list(expect_a), g, fr) if not q.get("pre") else None
        d = float(np.max(np.abs(fsum - (fa + fb))))
        d2 = float(np.max(np.abs(fa - pa))) if pa is not None else 0.0
        if verbose:
            print("F(a+b) (sum object filtered first):", fsum[:6], "\nF(a) + F(b) (operands filtered afterwards):", (fa + fb)[:6])
            print("max diff %.3g; F(a) vs the same filter on a plain Signal: %.3g; tolerance %.3g" % (d, d2, tol))
        if not (d <= tol and d2 <= tol):
            return ("FunctionSignal: the sum a+b was filtered first, then the operands: F(a)+F(b) differs from F(a+b) by %.3g and F(a) from the plain-Signal "
                    "result by %.3g (tolerance %.3g, n=%d, %s, force_real=%d): filtering the sum reached the operands" % (d, d2, tol, n, KIND_NAMES[int(resp[0])], fr))
        return None
    if kind == "copy":
        dsig = a.copy()
    elif kind == "rmul":
        dsig = q["c"] * a
    elif kind == "mul":
        dsig = a * q["c"]
    elif kind == "div":
        dsig = a / q["c"]
    elif kind == "add":
        dsig = a + b
    elif kind == "empty+":
        dsig = pyrex.EmptySignal(t.copy()) + a
    elif kind == "+empty":
        dsig = a + pyrex.EmptySignal(t.copy())
    else:
        dsig = a.with_times(t.copy())
    dsig.filter_frequencies(g, force_real=bool(fr))
    np.asarray(dsig.values)
    # the original is still what it was: directly, and under the unit response
    v1 = np.asarray(a.values, dtype=float)
    a.filter_frequencies(lambda f: np.ones(np.shape(f)), force_real=bool(fr))
    v2 = np.asarray(a.values, dtype=float)
    d1, d2 = float(np.max(np.abs(v1 - expect_a))), float(np.max(np.abs(v2 - expect_a)))
    if verbose:
        print("derived signal: %s, then filtered with %s" % (kind, KIND_NAMES[int(resp[0])]))
        print("original afterwards        :", v1[:6], "\noriginal, unit response    :", v2[:6], "\nexpected (plain Signal)    :", np.asarray(expect_a)[:6])
        print("max diffs %.3g / %.3g, tolerance %.3g" % (d1, d2, tol))
    if not (d1 <= tol and d2 <= tol):
        return ("FunctionSignal: after filtering a signal derived from it (%s) with %s, the ORIGINAL changed: values differ by %.3g, and by %.3g under the unit "
                "response (tolerance %.3g, n=%d, force_real=%d)" % (kind, KIND_NAMES[int(resp[0])], d1, d2, tol, n, fr))
    return None


# ----------------------------------------------------------------------------- FunctionSignal buffers
def pulse(A, c0, w, nu):
    """A smooth function of absolute time (Python only; the model receives its values on the model's own grid)."""
    def f(t):
        t = np.asarray(t, dtype=float)
        return A * np.exp(-((t - c0) / w) ** 2) * np.cos(2 * np.pi * nu * (t - c0))
    f.lipschitz = abs(A) * (2.0 / w + 2 * np.pi * abs(nu))
    return f


def gen_buffer(rng, dt, dyadic):
    u = rng.random()
    if u < 0.15:
        return 0.0
    k = rng.randint(0, 24)
    if u < 0.35:
        return k * dt                                        # whole steps
    if u < 0.8 or dyadic:
        return (k + rng.choice([0.5, 0.25, 0.75, 0.125])) * dt  # a fraction of a step more
    return float("%.6g" % ((k + rng.random()) * dt))            # decimal


def make_function_signal(times, func, lead, trail, filters, via_with_times):
    import pyrex
    t = np.array(times, dtype=float)
    if via_with_times:
        # buffers arise from re-gridding a longer signal onto a window inside it
        dt = t[1] - t[0]
        start, stop = t[0] - lead, t[-1] + trail
        nbig = int(round((stop - start) / dt)) + 1
        big = start + np.arange(nbig) * dt
        big[-1] = stop
        fs0 = pyrex.FunctionSignal(big, func)
        fs = fs0.with_times(t)
    else:
        fs = pyrex.FunctionSignal(t, func)
        fs.set_buffers(leading=lead, trailing=trail)
    for g, fr in filters:
        maybe_read(fs)
        fs.filter_frequencies(g, force_real=bool(fr))
    return fs


def buffer_probe(rng, n, times):
    """A pure delay (advance) by k samples brings the leading (trailing) buffer into the window: the values must be
    func(t - k dt) (func(t + k dt)) - the buffer samples have to sit on the continued grid."""
    if rng.random() < 0.5:
        return buffer_eval(n, times, gen_buffer_state(rng, n, times))
    dt = float(times[1] - times[0])
    span = n * dt
    par = (rng.uniform(0.5, 3) * 10.0 ** rng.randint(-9, 3), times[0] + rng.uniform(-0.2, 1.0) * span, rng.uniform(3, 12) * dt, rng.uniform(0, 0.12) / dt)
    lead, trail = gen_buffer(rng, dt, False), gen_buffer(rng, dt, False)
    via = rng.random() < 0.35
    nb, na = int(lead / dt), int(trail / dt)
    k = rng.randint(0, nb) if rng.random() < 0.6 else -rng.randint(0, na)
    return buffer_eval(n, times, {"buffers": [lead, trail], "k": k, "via_with_times": via, "pulse": list(par), "fr_delay": rng.randint(0, 1)})


def buffer_state_eval(n, times, q, verbose=False):
    """Buffers are per-component state.  (i) a component whose buffers were removed again (set_buffers(leading=0 / 0.0,
    trailing=0 / 0.0, force=True)) behaves as if it never had any: a delay brings zeros, not func, into the window;
    (ii) in a sum each component keeps ITS OWN buffers: after a delay of k samples a component with a leading buffer of at
    least k samples contributes func(t - k dt) everywhere, a component without buffer contributes zeros in its first k samples
    (either operand order).  Oracle: the analytic functions.  |k| <= N so that the 2N zero-padding excludes wrap-around."""
    import pyrex
    t = np.array(times, dtype=float)
    dt = float(t[1] - t[0])
    k = q["k"]
    fa = pulse(*q["pulse_a"])
    lead, trail = q["buffers_a"]

    def masked(f):
        v = f(t - k * dt)
        if k >= 0:
            v[:min(k, n)] = 0.0
        else:
            v[max(n + k, 0):] = 0.0
        return v
    try:
        a = pyrex.FunctionSignal(t.copy(), fa)
        a.set_buffers(leading=lead, trailing=trail)
        maybe_read(a)
        buffered = True
        if q.get("reset") is not None:
            zero = 0 if q["reset"] == "int0" else 0.0
            a.set_buffers(leading=zero, trailing=zero, force=True)
            buffered = False
        want = fa(t - k * dt) if buffered else masked(fa)
        amp, lip = abs(q["pulse_a"][0]), fa.lipschitz
        s_ = a
        if q.get("pulse_b"):
            fb = pulse(*q["pulse_b"])
            b = pyrex.FunctionSignal(t.copy(), fb)
            s_ = a + b if q["order"] == "ab" else b + a
            want = want + masked(fb)
            amp, lip = amp + abs(q["pulse_b"][0]), lip + fb.lipschitz
        maybe_read(s_)
        s_.filter_frequencies(py_response(1, k * dt, 0.0, 0.0), force_real=bool(q["fr_delay"]))
        got = np.asarray(s_.values, dtype=float)
    except Exception as e:
        return ("n=%d:exception" % n, "FunctionSignal buffer history raised %s: %s" % (type(e).__name__, e), q)
    nfull = n + int(lead / dt) + int(trail / dt) + 2
    tmax = float(np.max(np.abs(t))) + (abs(k) + nfull) * dt
    tol = probe_tol(nfull, amp * math.sqrt(nfull), 1.0) * max(1, abs(k)) + lip * 64 * EPS * tmax * (1 + abs(k)) + amp * 1e-12
    d = float(np.max(np.abs(got - want)))
    if verbose:
        print("values   :", got[:10], "\nexpected :", want[:10], "\nmax |diff| = %.3g, tolerance %.3g" % (d, tol))
    if not d <= tol:
        i = int(np.argmax(np.abs(got - want)))
        return ("n=%d:buffer-state" % n,
                "FunctionSignal%s: component with buffers %r/%r s%s, pure %s of %d samples (dt=%r): value %d is %.9g, the analytic functions give %.9g "
                "(|diff| %.3g > %.3g, amplitude %.3g): buffers are not per-component state / a removed buffer still leaks into the window"
                % (" sum (%s)" % ("buffered + plain" if q["order"] == "ab" else "plain + buffered") if q.get("pulse_b") else "", lead, trail,
                   " then removed with set_buffers(%s, force=True)" % ("0" if q.get("reset") == "int0" else "0.0") if q.get("reset") else "",
                   "delay" if k >= 0 else "advance", abs(k), dt, i, got[i], want[i], d, tol, amp), q)
    return None


def gen_buffer_state(rng, n, times):
    dt = float(times[1] - times[0])
    span = n * dt

    def par():
        return [rng.uniform(0.5, 3) * 10.0 ** rng.randint(-9, 3), times[0] + rng.uniform(-0.3, 1.1) * span, rng.uniform(3, 12) * dt, rng.uniform(0, 0.12) / dt]
    lead, trail = max(gen_buffer(rng, dt, False), rng.randint(1, 12) * dt), max(gen_buffer(rng, dt, False), rng.randint(1, 12) * dt)
    reset = rng.choice([None, None, "int0", "float0"])
    kmax_f, kmax_b = (min(n, 8), min(n, 8)) if reset else (min(n, int(lead / dt)), min(n, int(trail / dt)))
    k = rng.randint(0, kmax_f) if rng.random() < 0.6 else -rng.randint(0, kmax_b)
    return {"pulse_a": par(), "pulse_b": par() if rng.random() < 0.65 else None, "buffers_a": [lead, trail], "order": rng.choice(["ab", "ba"]),
            "reset": reset, "k": k, "fr_delay": rng.randint(0, 1), "state": True}


def buffer_eval(n, times, q, verbose=False):
    if q.get("state"):
        return buffer_state_eval(n, times, q, verbose)
    t = np.array(times)
    dt = float(t[1] - t[0])
    lead, trail = q["buffers"]
    k, via = q["k"], q["via_with_times"]
    f = pulse(*q["pulse"])
    A = q["pulse"][0]
    g = py_response(1, k * dt, 0.0, 0.0)
    try:
        fs = make_function_signal(times, f, lead, trail, [(g, q["fr_delay"])], via)
        got = np.asarray(fs.values, dtype=float)
        full = np.asarray(fs._full_times(0), dtype=float)
    except Exception as e:
        return ("n=%d:exception" % n, "FunctionSignal with buffers (%r, %r) raised %s: %s" % (lead, trail, type(e).__name__, e), q)
    want = f(t - k * dt)
    tmax = float(np.max(np.abs(full))) + abs(k) * dt
    tol = probe_tol(len(full), float(snorm(f(full))), 1.0) * max(1, abs(k)) + f.lipschitz * 64 * EPS * tmax * (1 + abs(k)) + abs(A) * 1e-12
    d = float(np.max(np.abs(got - want)))
    steps = np.diff(full)
    dstep = float(np.max(np.abs(steps - dt))) if len(steps) else 0.0
    if verbose:
        print("buffer-extended grid (first 6):", full[:6], " steps min/max:", (float(np.min(steps)), float(np.max(steps))) if len(steps) else None, " dt:", dt)
        print("values            :", got[:8])
        print("func(t - k dt)    :", want[:8])
        print("max |diff| = %.3g, tolerance %.3g; grid step deviation %.3g" % (d, tol, dstep))
    if not (d <= tol and dstep <= 64 * EPS * tmax):
        i = int(np.argmax(np.abs(got - want)))
        return ("n=%d:buffers" % n,
                "FunctionSignal with leading/trailing buffers %r/%r s (dt=%r%s) and a pure %s of %d samples: value %d is %.9g, func(t %s %d dt) = %.9g "
                "(|diff| %.3g > %.3g, amplitude %.3g); buffer grid step deviates from dt by %.3g"
                % (lead, trail, dt, ", buffers from with_times" if via else "", "delay" if k >= 0 else "advance", abs(k), i, got[i],
                   "-" if k >= 0 else "+", abs(k), want[i], d, tol, A, dstep), q)
    return None


def buffer_correspondence(ctx, exe, count):
    """Exactly representable grids (dyadic dt, t0, buffers): the implementation's _full_times grid must EQUAL the model's
    full_times, and FunctionSignal.values must be the model's function_signal_values of func on that grid."""
    rng = ctx.rng
    lim = Limiter(ctx)
    cases = []
    for _ in range(count):
        n = rng.randint(2, 16) if rng.random() < 0.5 else rng.randint(17, 96)
        dt = rng.randint(1, 7) * 2.0 ** -rng.randint(0, 30)
        t0 = rng.randint(-4096, 4096) * dt * rng.choice([1, 1, 0.5, 0.25])
        times = [t0 + i * dt for i in range(n)]
        lead, trail = gen_buffer(rng, dt, True), gen_buffer(rng, dt, True)
        fl = []
        for _ in range(rng.choice([0, 1, 1, 1, 2])):
            if rng.random() < 0.5:
                kk = rng.randint(-int(trail / dt), int(lead / dt))
                fl.append((1, (kk * dt, 0.0, 0.0), rng.randint(0, 1)))
            else:
                k2, p1, p2, p3 = gen_response(rng, n, dt)
                fl.append((k2, (p1, p2, p3), rng.randint(0, 1)))
        A, c0 = rng.uniform(0.5, 3) * 10.0 ** rng.randint(-9, 3), t0 + rng.uniform(-0.2, 1.0) * n * dt
        cases.append({"op": "fsbuf", "n": n, "times": times, "lead": lead, "trail": trail, "filters": fl, "via_with_times": rng.random() < 0.3,
                      "pulse": (A, c0, rng.uniform(3, 12) * dt, rng.uniform(0, 0.12) / dt), "values": [A]})
    try:
        grids = dft_extract.run_lines(exe, ["fullgrid %s %s %d %s" % (hexs([c["lead"]]), hexs([c["trail"]]), c["n"], hexs(c["times"])) for c in cases])
    except Exception as e:
        ctx.oblige("corr:function-signal-buffers", False, str(e)[-600:])
        return
    lines, todo = [], []
    bad = 0
    for c, gl in zip(cases, grids):
        mg = np.array(parse_floats(gl), dtype=float)
        f = pulse(*c["pulse"])
        fl = [(py_response(k, *p), fr) for (k, p, fr) in c["filters"]]
        ctx.case(key=("fsbuf", c["n"], c["lead"], c["trail"], str(c["filters"]), c["times"][0]), nontrivial=(c["lead"] > 0 or c["trail"] > 0),
                 sample={k: c[k] for k in ("op", "n", "lead", "trail", "filters", "via_with_times")})
        try:
            fs = make_function_signal(c["times"], f, c["lead"], c["trail"], fl, c["via_with_times"])
            ig = np.asarray(fs._full_times(0), dtype=float)
            iv = np.asarray(fs.values, dtype=float)
        except Exception as e:
            bad += 1
            lim.fail("fsbuf", "corr:fsbuf:n=%d:exception" % c["n"], "FunctionSignal with buffers raised %s: %s; case %s" % (type(e).__name__, e, {k: c[k] for k in ("n", "lead", "trail", "filters")}),
                     {"kind": "corr", "case": c})
            continue
        if ig.shape != mg.shape or not np.array_equal(ig, mg):
            bad += 1
            j = int(np.argmax(np.abs(ig - mg))) if ig.shape == mg.shape else -1
            lim.fail("fsbuf-grid", "corr:fsbuf:n=%d:grid" % c["n"],
                     "FunctionSignal._full_times differs from the model's buffer grid (lengths %d/%d%s) for buffers %r/%r, dt=%r%s: the buffer samples do not continue the grid with step dt"
                     % (len(ig), len(mg), "; entry %d: %r vs %r" % (j, ig[j], mg[j]) if j >= 0 else "", c["lead"], c["trail"], c["times"][1] - c["times"][0],
                        " (buffers from with_times)" if c["via_with_times"] else ""), {"kind": "corr", "case": c})
            continue
        fv = f(mg)
        fls = " ".join("%d %s %d" % (k, hexs(p), fr) for (k, p, fr) in c["filters"])
        lines.append("fsvalues %s %s %d %s %d %s %d %s" % (hexs([c["lead"]]), hexs([c["trail"]]), len(c["filters"]), fls, c["n"], hexs(c["times"]), len(fv), hexs(fv)))
        h = 1.0
        for (k, p, fr) in c["filters"]:
            h *= max(1.0, hmax(k, *p))
        todo.append((c, iv, 1e-9 * float(np.max(np.abs(fv))) * h + tol_floor(len(fv))))
    try:
        outs = dft_extract.run_lines(exe, lines)
    except Exception as e:
        ctx.oblige("corr:function-signal-buffers", False, str(e)[-600:])
        return
    for (c, iv, tol), o in zip(todo, outs):
        mv = np.array(parse_floats(o), dtype=float)
        d = float(np.max(np.abs(iv - mv))) if iv.shape == mv.shape and len(iv) else (0.0 if iv.shape == mv.shape else float("inf"))
        if not d <= tol:
            bad += 1
            lim.fail("fsbuf-values", "corr:fsbuf:n=%d:values" % c["n"], "FunctionSignal.values with buffers %r/%r and filters %s differ from the model: %.3g > %.3g"
                     % (c["lead"], c["trail"], [(KIND_NAMES[k], fr) for (k, p, fr) in c["filters"]], d, tol), {"kind": "corr", "case": c})
    ctx.oblige("corr:function-signal-buffers", bad == 0, "%d of %d buffer cases disagree" % (bad, len(cases)))
    ctx.extra["buffer_correspondence"] = {"cases": len(cases), "disagreements": bad,
                                          "compared": "_full_times grid (exact, dyadic data) and FunctionSignal.values against function_signal_values of the model"}


# ----------------------------------------------------------------------------- search probes
def probe_tol(n, xnorm, h):
    # FFT round-off: both transforms are backward stable with relative 2-norm error
    # <= c*eps*log2(M), c ~ 10 (Higham, ASNA 24.2; Bluestein lengths a few times more).
    # 1000*eps*log2(M) is a safe upper bound on the error of one filtering.
    return 1000 * EPS * math.log2(max(2 * n, 2)) * xnorm * max(1.0, h) + tol_floor(n) * max(1.0, h)


def probes(ctx, count, nmax):
    rng = ctx.rng
    stats = {}

    lim = Limiter(ctx, per=1)
    nfail = [0]

    def report(rel, key, what, obj):
        nfail[0] += 1
        lim.fail(rel, "probe:%s:%s" % (rel, key), what, dict(obj, kind="probe", relation=rel))

    for it in range(count):
        n, times = gen_grid(rng, nmax)
        if rng.random() < 0.3:
            n = rng.randint(max(2, nmax // 4), nmax)
            dt = 10.0 ** rng.uniform(-10, 0)
            times = [i * dt for i in range(n)]
        dt = times[1] - times[0]
        x = gen_values(rng, n)
        y = gen_values(rng, n)
        xa, ya = np.array(x), np.array(y)
        k, p1, p2, p3 = gen_response(rng, n, dt)
        if k == 0:
            k, p1, p2, p3 = 6, 0.3 / dt, 1.0, -1.5
        fr = rng.randint(0, 1)
        g = py_response(k, p1, p2, p3)
        h = hmax(k, p1, p2, p3)
        base = {"n": n, "times": times, "values": x, "values2": y, "resp": [k, p1, p2, p3], "fr": fr}
        rel = ["linear", "stateful", "scale", "derived", "homogeneous", "buffer", "identity", "stateful", "offset", "derived", "scale", "force_real",
               "passive", "buffer", "delay", "function_signal"][it % 16]
        stats[rel] = stats.get(rel, 0) + 1
        ctx.case(key=("probe", rel, n, k, fr, hexs(x[:6])), nontrivial=True,
                 sample={"probe": rel, "n": n, "dt": dt, "response": KIND_NAMES[k], "force_real": fr} if it < 8 else None)
        try:
            if rel == "linear":
                a, b = rng.uniform(-3, 3), rng.uniform(-3, 3)
                lhs = impl_filter(times, a * xa + b * ya, g, fr)
                rhs = a * impl_filter(times, x, g, fr) + b * impl_filter(times, y, g, fr)
                tol = 3 * probe_tol(n, abs(a) * snorm(xa) + abs(b) * snorm(ya), h)
                d = float(np.max(np.abs(lhs - rhs)))
                if not d <= tol:
                    report(rel, "n=%d" % n, "filter(a x + b y) != a filter(x) + b filter(y): max diff %.3g > %.3g (n=%d, %s, force_real=%d)"
                           % (d, tol, n, KIND_NAMES[k], fr), dict(base, a=a, b=b))
            elif rel == "stateful":
                # ONE response object that keeps and re-issues its table, used for every application below
                kk, q, mode = gen_stored(rng, n, dt)
                st = StoredResponse(kk, q, mode)
                pure = py_response(kk, *q)
                hh = hmax(kk, *q)
                via = [rng.choice(["signal", "function"]) for _ in range(6)]
                frs = [fr if rng.random() < 0.75 else 1 - fr for _ in range(6)]
                frs[1] = frs[2] = frs[3] = frs[4] = frs[0]      # the linearity group shares one setting

                def F(v, i, resp):
                    if via[i] == "signal":
                        return impl_filter(times, list(v), resp, frs[i])
                    return impl_function_signal(times, list(v), [(resp, frs[i])])
                fa, fb, fab, f3a, fa2 = F(xa, 0, st), F(ya, 1, st), F(xa + ya, 2, st), F(3.0 * xa, 3, st), F(xa, 4, st)
                via[5], frs[5] = via[0], frs[0]
                fa3 = F(xa, 5, st)
                nx = snorm(xa) + snorm(ya)
                tol = 6 * probe_tol(n, nx, hh)
                checks = [("F(a)+F(b) = F(a+b)", float(np.max(np.abs(fa + fb - fab)))),
                          ("F(3a) = 3F(a)", float(np.max(np.abs(f3a - 3.0 * fa2)))),
                          ("F(a) repeated (same path, same force_real) = F(a)", float(np.max(np.abs(fa3 - fa)))),
                          ("F(a) with the stored response = F(a) with the freshly computed one", float(np.max(np.abs(fa - F(xa, 0, pure))))),
                          ("later F(a) with the stored response = fresh", float(np.max(np.abs(fa2 - F(xa, 4, pure)))))]
                worst_name, worst_d = max(checks, key=lambda t: t[1])
                hist = dict(base, resp=[kk] + list(q), mode=mode, via=via, frs=frs)
                if not worst_d <= tol:
                    report(rel, "n=%d" % n, "re-using one stored response object (%s, %s): %s violated by %.3g > %.3g (n=%d, paths %s, force_real %s)"
                           % (mode, KIND_NAMES[kk], worst_name, worst_d, tol, n, via, frs), hist)
                if not st.unmodified():
                    report(rel + "-table", "n=%d:table" % n, "filtering modified the caller's stored response table (%s, %s, n=%d, force_real %s)"
                           % (mode, KIND_NAMES[kk], n, frs), hist)
            elif rel == "scale":
                # homogeneity in the SIGNAL across amplitude scales: F(c x) = c F(x), c = 1e-12 .. 1e12 (and powers
                # of two, for which it is exact up to the last bit); tolerance relative to max|c x|
                via = rng.choice(["signal", "function"])
                cc = rng.choice([10.0 ** rng.uniform(-12, 12), 10.0 ** rng.randint(-12, 12), 2.0 ** rng.randint(-40, 40), 10.0 ** rng.uniform(-12, -7)])
                xs = np.array(gen_shape(rng, n))
                if not np.any(xs):
                    xs[0] = 1.0

                def F(v):
                    return impl_filter(times, list(v), g, fr) if via == "signal" else impl_function_signal(times, list(v), [(g, fr)])
                lhs, rhs = F(cc * xs), cc * F(xs)
                tol = 6 * probe_tol(n, snorm(cc * xs), h)
                d = float(np.max(np.abs(lhs - rhs)))
                if not d <= tol:
                    report(rel, "n=%d" % n, "filter is not homogeneous in the signal: F(c x) differs from c F(x) by %.3g > %.3g for c=%r, max|c x|=%.3g "
                           "(n=%d, %s, %s, force_real=%d)" % (d, tol, cc, float(np.max(np.abs(cc * xs))), n, via, KIND_NAMES[k], fr), dict(base, values=list(xs), c=cc, via=via))
            elif rel == "derived":
                q = {"derive": rng.choice(["copy", "rmul", "mul", "div", "add", "empty+", "+empty", "with_times", "sum-first"]),
                     "pre": [k, p1, p2, p3, fr] if rng.random() < 0.5 else None, "c": rng.choice([2.0, 0.5, -3.0])}
                res = derived_eval(n, times, x, y, [k, p1, p2, p3], fr, q)
                if res:
                    report(rel, "n=%d:%s" % (n, q["derive"]), res, dict(base, **q))
            elif rel == "buffer":
                res = buffer_probe(rng, n, times)
                if res:
                    report(rel, res[0], res[1], dict(base, **res[2]))
            elif rel == "homogeneous":
                c = rng.uniform(-3, 3)
                gc = (lambda f, g=g, c=c: c * g(f))
                lhs = impl_filter(times, x, gc, fr)
                rhs = c * impl_filter(times, x, g, fr)
                g2 = py_response(6, p1 if k != 5 and p1 > 0 else 0.2 / dt, -0.5, 0.75)
                add = impl_filter(times, x, (lambda f, g=g, g2=g2: g(f) + g2(f)), fr)
                rhs2 = impl_filter(times, x, g, fr) + impl_filter(times, x, g2, fr)
                tol = 3 * probe_tol(n, snorm(xa), (abs(c) + 1) * h + 1.0)
                d = max(float(np.max(np.abs(lhs - rhs))), float(np.max(np.abs(add - rhs2))))
                if not d <= tol:
                    report(rel, "n=%d" % n, "filter is not homogeneous/additive in the response: max diff %.3g > %.3g (n=%d, %s, force_real=%d)"
                           % (d, tol, n, KIND_NAMES[k], fr), dict(base, c=c))
            elif rel == "identity":
                unit = rng.choice([lambda f: np.ones(np.shape(f)), lambda f: 1.0 + 0j * float(f), lambda f: np.ones(np.shape(f)) + 0j])
                out = impl_filter(times, x, unit, fr)
                tol = probe_tol(n, snorm(xa), 1.0)
                d = float(np.max(np.abs(out - xa)))
                if not d <= tol:
                    report(rel, "n=%d" % n, "unit response changes the signal: max diff %.3g > %.3g (n=%d, force_real=%d)" % (d, tol, n, fr), base)
            elif rel == "offset":
                # two grids with bit-identical times[1]-times[0] but different absolute position
                m = rng.randint(0, 30)
                dt2 = rng.randint(1, 7) * 2.0 ** -m
                ta = [i * dt2 for i in range(n)]
                c = rng.randint(-10 ** 6, 10 ** 6) * dt2
                tb = [c + t for t in ta]
                if (tb[1] - tb[0]) != (ta[1] - ta[0]):
                    continue
                kk, q1, q2, q3 = gen_response(rng, n, dt2)
                gg = py_response(kk, q1, q2, q3)
                o1 = impl_filter(ta, x, gg, fr)
                o2 = impl_filter(tb, x, gg, fr)
                d = float(np.max(np.abs(o1 - o2)))
                if d != 0.0:
                    report(rel, "n=%d" % n, "result depends on the absolute position of the time grid: max diff %.3g between offset 0 and %r (n=%d, dt=%r, %s)"
                           % (d, c, n, dt2, KIND_NAMES[kk]), dict(base, times=ta, offset=c, resp=[kk, q1, q2, q3]))
            elif rel == "force_real":
                # plain filter with the Hermitian-symmetrised response, built independently here
                gsym = make_gsym(g, k, n, dt)
                o1 = impl_filter(times, x, g, 1)
                o2 = impl_filter(times, x, gsym, 0)
                # and it must be a genuinely real inverse transform: imaginary part of the
                # symmetrised product is round-off
                X = np.fft.fft(np.concatenate((xa, np.zeros(n))))
                z = np.fft.ifft(gsym(np.fft.fftfreq(2 * n, dt)) * X)[:n]
                tol = 3 * probe_tol(n, snorm(xa), h)
                d = max(float(np.max(np.abs(o1 - o2))), float(np.max(np.abs(z.imag))), float(np.max(np.abs(z.real - o1))))
                if not d <= tol:
                    report(rel, "n=%d" % n, "force_real result is not the real signal of the Hermitian-symmetrised response: %.3g > %.3g (n=%d, %s)"
                           % (d, tol, n, KIND_NAMES[k]), base)
            elif rel == "passive":
                kk = rng.choice([1, 2, 3, 4, 5, 6])
                q1, q2, q3 = gen_response_of(rng, kk, n, dt)
                # bring the family into the closed unit disc (|H| <= 1 at every frequency):
                # 4: |r/(1+r)| < 1 for r > 0;  6: (a^2+b^2 r^2)/(1+r^2)^2 <= 1 when |a|,|b| <= 1
                if kk == 4:
                    s = 1.0 / max(1.0, math.hypot(q2, q3) * (1 + 1e-12))
                    q2, q3 = q2 * s, q3 * s
                elif kk == 5:
                    s = 1.0 / max(1.0, math.hypot(q1, q2) * (1 + 1e-12))
                    q1, q2 = q1 * s, q2 * s
                elif kk == 6:
                    q2, q3 = max(-1.0, min(1.0, q2)), max(-1.0, min(1.0, q3))
                gg = py_response(kk, q1, q2, q3)
                out = impl_filter(times, x, gg, fr)
                mx = float(np.max(np.abs(xa))) or 1.0           # energies relative to max|x|: no underflow of squares
                ein, eout = float(np.sum((xa / mx) ** 2)), float(np.sum((out / mx) ** 2))
                if not eout <= ein * (1 + 1e-9) + 1e-300:
                    report(rel, "n=%d" % n, "a response of magnitude <= 1 increased the energy: %.17g -> %.17g (n=%d, %s, force_real=%d)"
                           % (ein, eout, n, KIND_NAMES[kk], fr), dict(base, resp=[kk, q1, q2, q3]))
            elif rel == "delay":
                m = rng.choice([0, 1, n // 2, n - 1, n, rng.randint(0, n)])
                gg = py_response(1, m * dt, 0.0, 0.0)
                out = impl_filter(times, x, gg, fr)
                exp = np.concatenate((np.zeros(m), xa[:n - m]))
                tol = probe_tol(n, snorm(xa), 1.0) * max(1.0, m)  # phase error 2 pi f tau eps grows with m
                d = float(np.max(np.abs(out - exp)))
                if not d <= tol:
                    i = int(np.argmax(np.abs(out - exp)))
                    report(rel, "n=%d:m=%d" % (n, m), "pure delay of %d samples: sample %d is %.17g, expected %.17g (n=%d, force_real=%d): %s"
                           % (m, i, out[i], exp[i], n, fr, "wrap-around" if i < m else "not a shift"), dict(base, m=m))
            elif rel == "function_signal":
                o1 = impl_function_signal(times, x, [(g, fr)])
                o2 = impl_filter(times, x, g, fr)
                tol = probe_tol(n, snorm(xa), h)
                d = float(np.max(np.abs(o1 - o2)))
                if not d <= tol:
                    report(rel, "n=%d" % n, "FunctionSignal and Signal filter the same samples differently: %.3g > %.3g (n=%d, %s, force_real=%d)"
                           % (d, tol, n, KIND_NAMES[k], fr), base)
        except Exception as e:
            report(rel, "n=%d:exception" % n, "%s raised %s: %s" % (rel, type(e).__name__, e), base)
    ctx.oblige("probe:metamorphic-relations", nfail[0] == 0, "%d probe evaluations failed" % nfail[0] if nfail[0] else "")
    ctx.extra["search"] = {"ran": True, "evaluations": count, "failed": nfail[0], "relations": stats, "max_length": nmax,
                           "oracle": "relations between outputs of the implementation only; tolerance 1000*eps*log2(2N)*||x||_2*max|H| (FFT backward error bound), offset relation exact"}


def make_gsym(g, k, n, dt):
    """Hermitian-symmetrised response built independently of the code: g(|f|) for f > 0, its conjugate for
    f < 0, real part at DC and at the Nyquist bin of the padded transform."""
    fnyq = -abs(np.fft.fftfreq(2 * n, dt)[n])

    def gsym(f):
        f = np.asarray(f, dtype=float)
        if k == 3:
            r = np.array([complex(g(abs(float(v)))) for v in f.ravel()]).reshape(f.shape)
        else:
            r = np.asarray(g(np.abs(f)), dtype=complex)
        out = np.where(f < 0, np.conj(r), r)
        return np.where((f == 0) | (f == fnyq), out.real + 0j, out)
    return gsym


def gen_response_of(rng, kind, n, dt):
    for _ in range(1000):
        k, p1, p2, p3 = gen_response(rng, n, dt)
        if k == kind:
            return p1, p2, p3
    return 0.25 / dt, 0.5, 0.5


# ----------------------------------------------------------------------------- entry points
EXTRACT_REQ = "From PyrexLib Require Import DFT.\nFrom PyrexModel Require Import FilterModel."
EXTRACT_CMD = ('Extract Constant Int_part => "(fun x -> int_of_float (floor x))".\n'
               'Extraction "filt.ml" filter_frequencies apply_filters fft_l ifft_l fftfreq delay_response full_times function_signal_values sig_dt n_buffer fs_trace sg_trace fs_init mg_run.')


PINS = [("pyrex/signals.py", "Signal.filter_frequencies"), ("pyrex/signals.py", "Signal._get_filter_response"),
        ("pyrex/signals.py", "FunctionSignal._apply_filters"), ("pyrex/signals.py", "FunctionSignal.filter_frequencies"),
        ("pyrex/signals.py", "Signal.spectrum"), ("pyrex/signals.py", "Signal.frequencies"), ("pyrex/signals.py", "Signal.dt"),
        ("pyrex/signals.py", "FunctionSignal._full_times"), ("pyrex/signals.py", "FunctionSignal._value_window"),
        ("pyrex/signals.py", "FunctionSignal.values"), ("pyrex/signals.py", "FunctionSignal.set_buffers"), ("pyrex/signals.py", "FunctionSignal.with_times"),
        ("pyrex/signals.py", "FunctionSignal.__imul__"), ("pyrex/signals.py", "FunctionSignal.__itruediv__"), ("pyrex/signals.py", "FunctionSignal.copy"),
        ("pyrex/signals.py", "Signal.__imul__"), ("pyrex/signals.py", "Signal.__itruediv__"), ("pyrex/signals.py", "FunctionSignal.__add__")]


def run(ctx):
    ctx.rule = ("corr: random signals (length 2..257 odd/even, dt 1e-10..1 decimal and dyadic, grid offsets, gaussian/integer/impulse/"
                "constant samples) x responses {unit, pure delay (whole and fractional samples, up to the window), one-pole low-pass, "
                "scalar-only Python function, complex positive-frequency-only, complex constant, two-parameter complex} x force_real, through "
                "Signal.filter_frequencies, FunctionSignal (1-3 filters), Signal.spectrum/.frequencies, against the extracted Coq model; "
                "non-trivial = non-zero signal and non-unit response; distinct by (op, N, response, parameters, samples). "
                "probes: linearity, homogeneity/additivity in the response, identity, grid offset, force_real = symmetrised response, "
                "passivity, delay without wrap-around, FunctionSignal = Signal, lengths up to a few thousand")
    ctx.trusted += ["Coq 8.16.1 kernel; Coquelicot 3 (complex numbers); stdlib real-number axioms",
                    dft_extract.TRUSTED,
                    "scipy.fft.fft/ifft are the DFT of Lib/DFT.v: validated on every run (Signal.spectrum and the whole filter against the model), not proved",
                    "response functions g are written twice (Python / OCaml driver) with the same operation order"]
    ctx.assumptions += ["theorems are about exact real arithmetic; floating-point round-off of the FFT is covered by the correspondence tolerance only",
                        "vectorised and scalar evaluation of a response are the same map (validated by the scalar-only responses)",
                        "warnings/logging of filter_frequencies are not modelled",
                        "force_real clause assumes dt > 0; delay clause is for whole-sample delays 0 <= m <= N"]
    READS.seed(ctx.seed * 31 + 7)
    READ_MODE[0] = "random"
    ok = ctx.coq_build("C05")
    exe = dft_extract.build(ctx, "c05", EXTRACT_REQ, EXTRACT_CMD, "filt", "c05_driver.ml")
    before = len(ctx.failures)
    # a hand-modelled function was edited since the model was written: re-validate harder
    repin = bool(dft_extract.pins_changed(ctx, "C05", PINS))
    if exe:
        correspondence(ctx, exe, ctx.n(1000 if repin else 260, 6000))
        buffer_correspondence(ctx, exe, ctx.n(300 if repin else 80, 1500))
    failed = (not ok) or exe is None or len(ctx.failures) > before or bool(ctx.broken) or repin
    if ctx.thorough or failed:
        probes(ctx, ctx.n(400, 2400), ctx.n(2048, 4096))
    else:
        probes(ctx, 64, 1024)


def replay(ctx, obj):
    np.set_printoptions(precision=17)
    READ_MODE[0] = "always"          # replays read .values before every filter call (the order that exposes stale caches)
    if obj.get("broken"):
        print("no concrete input: broken obligations", obj["broken"])
        return 1
    if obj.get("kind") == "corr" and obj["case"].get("op") == "history":
        c = obj["case"]
        c["p"] = tuple(c["p"])
        print("one stored response object (%s, %s%r) applied %d times; case %s" % (c["mode"], KIND_NAMES[c["kind"]], c["p"], len(c["steps"]), short(c)))
        impls, intact, tols = run_history(c)
        ctx.coq_build("C05")
        exe = dft_extract.build(ctx, "c05", EXTRACT_REQ, EXTRACT_CMD, "filt", "c05_driver.ml")
        rc = 0
        if exe:
            outs = dft_extract.run_lines(exe, case_lines(c))
            for i, (im, o, tol) in enumerate(zip(impls, outs, tols)):
                mo = np.array(parse_floats(o))
                d = float(np.max(np.abs(im - mo))) if im.shape == mo.shape else float("inf")
                print("application %d (%s, force_real=%d): max |impl-model| = %.3g, tolerance %.3g -> %s"
                      % (i + 1, c["steps"][i]["target"], c["steps"][i]["fr"], d, tol, "AGREE" if d <= tol else "DISAGREE"))
                if not d <= tol:
                    print("  implementation:", im[:8], "\n  model         :", mo[:8])
                    rc = 1
        print("stored response table unmodified afterwards:", intact)
        return rc or (0 if intact else 1)
    if obj.get("kind") == "corr" and obj["case"].get("op") == "mg":
        c = obj["case"]
        print("program on FunctionSignal objects (n=%d): %s" % (c["n"], describe_mg(c)))
        impls, tols = run_mg(c)
        ctx.coq_build("C05")
        exe = dft_extract.build(ctx, "c05", EXTRACT_REQ, EXTRACT_CMD, "filt", "c05_driver.ml")
        if not exe:
            return 1
        flat = np.array(parse_floats(dft_extract.run_lines(exe, [mg_line(c)])[0]))
        rc = 0
        for i, (im, tol) in enumerate(zip(impls, tols)):
            mo = flat[i * c["n"]:(i + 1) * c["n"]]
            d = float(np.max(np.abs(im - mo)))
            print("read %d: max |impl-model| = %.3g, tolerance %.3g -> %s" % (i + 1, d, tol, "AGREE" if d <= tol else "DISAGREE"))
            if not d <= tol:
                print("   implementation:", im[:6], "\n   model         :", mo[:6])
                rc = 1
        return rc
    if obj.get("kind") == "corr" and obj["case"].get("op") == "trace":
        c = obj["case"]
        print("one %s object, n=%d, history: %s" % ("FunctionSignal" if c["target"] == "fs" else "Signal", c["n"], describe_ops(c)))
        impls, tols = run_trace(c)
        ctx.coq_build("C05")
        exe = dft_extract.build(ctx, "c05", EXTRACT_REQ, EXTRACT_CMD, "filt", "c05_driver.ml")
        if not exe:
            return 1
        flat = np.array(parse_floats(dft_extract.run_lines(exe, [trace_line(c)])[0]))
        rc = 0
        for i, (im, tol) in enumerate(zip(impls, tols)):
            mo = flat[i * c["n"]:(i + 1) * c["n"]]
            d = float(np.max(np.abs(im - mo)))
            print("after op %d (%s): max |impl-model| = %.3g, tolerance %.3g -> %s" % (i + 1, describe_ops({"ops": [c["ops"][i]]}), d, tol, "AGREE" if d <= tol else "DISAGREE"))
            if not d <= tol:
                print("   implementation:", im[:6], "\n   model         :", mo[:6])
                rc = 1
        return rc
    if obj.get("kind") == "corr" and obj["case"].get("op") == "fsbuf":
        c = obj["case"]
        c["filters"] = [(k, tuple(p), fr) for (k, p, fr) in c["filters"]]
        f = pulse(*c["pulse"])
        fl = [(py_response(k, *p), fr) for (k, p, fr) in c["filters"]]
        print("FunctionSignal, n=%d, dt=%r, buffers %r/%r%s, filters %s" % (c["n"], c["times"][1] - c["times"][0], c["lead"], c["trail"],
              " (from with_times)" if c["via_with_times"] else "", [(KIND_NAMES[k], p, fr) for (k, p, fr) in c["filters"]]))
        fs = make_function_signal(c["times"], f, c["lead"], c["trail"], fl, c["via_with_times"])
        ig, iv = np.asarray(fs._full_times(0), dtype=float), np.asarray(fs.values, dtype=float)
        ctx.coq_build("C05")
        exe = dft_extract.build(ctx, "c05", EXTRACT_REQ, EXTRACT_CMD, "filt", "c05_driver.ml")
        if not exe:
            return 1
        mg = np.array(parse_floats(dft_extract.run_lines(exe, ["fullgrid %s %s %d %s" % (hexs([c["lead"]]), hexs([c["trail"]]), c["n"], hexs(c["times"]))])[0]))
        same = ig.shape == mg.shape and np.array_equal(ig, mg)
        print("implementation _full_times (%d):" % len(ig), ig[:8], "\nmodel full_times        (%d):" % len(mg), mg[:8], "\n->", "AGREE" if same else "DISAGREE")
        if not same:
            return 1
        fv = f(mg)
        fls = " ".join("%d %s %d" % (k, hexs(p), fr) for (k, p, fr) in c["filters"])
        mv = np.array(parse_floats(dft_extract.run_lines(exe, ["fsvalues %s %s %d %s %d %s %d %s" % (hexs([c["lead"]]), hexs([c["trail"]]), len(c["filters"]), fls, c["n"], hexs(c["times"]), len(fv), hexs(fv))])[0]))
        d = float(np.max(np.abs(iv - mv))) if iv.shape == mv.shape else float("inf")
        print("implementation values:", iv[:8], "\nmodel values         :", mv[:8], "\nmax diff %.3g" % d)
        return 0 if d <= 1e-9 * float(np.max(np.abs(fv))) * 16 + tol_floor(len(fv)) else 1
    if obj.get("kind") == "probe" and obj.get("relation") == "derived":
        res = derived_eval(obj["n"], obj["times"], obj["values"], obj["values2"], obj["resp"], obj["fr"], obj, verbose=True)
        print("->", "DISAGREE: " + res if res else "AGREE")
        return 1 if res else 0
    if obj.get("kind") == "probe" and obj.get("relation") == "buffer":
        res = buffer_eval(obj["n"], obj["times"], obj, verbose=True)
        print("->", "DISAGREE: " + res[1] if res else "AGREE")
        return 1 if res else 0
    if obj.get("kind") == "probe" and obj.get("relation") == "scale":
        k, p1, p2, p3 = obj["resp"]
        g = py_response(int(k), p1, p2, p3)
        xs, cc, via, fr = np.array(obj["values"]), obj["c"], obj["via"], obj["fr"]
        F = (lambda v: impl_filter(obj["times"], list(v), g, fr)) if via == "signal" else (lambda v: impl_function_signal(obj["times"], list(v), [(g, fr)]))
        lhs, rhs = F(cc * xs), cc * F(xs)
        print("c = %r, max|c x| = %.3g, response %s, via %s" % (cc, float(np.max(np.abs(cc * xs))), KIND_NAMES[int(k)], via))
        print("F(c x)  :", lhs[:8], "\nc F(x)  :", rhs[:8], "\nc x     :", (cc * xs)[:8])
        d = float(np.max(np.abs(lhs - rhs)))
        tol = 6 * probe_tol(obj["n"], snorm(cc * xs), hmax(int(k), p1, p2, p3))
        print("max diff %.3g, tolerance %.3g -> %s" % (d, tol, "AGREE" if d <= tol else "DISAGREE"))
        return 0 if d <= tol else 1
    if obj.get("kind") == "corr":
        c = obj["case"]
        if "p" in c:
            c["p"] = tuple(c["p"])
        if "filters" in c:
            c["filters"] = [(k, tuple(p), fr) for (k, p, fr) in c["filters"]]
        print("case:", short(c))
        try:
            impl, tol = run_impl(c)
            print("implementation:", impl)
        except Exception as e:
            impl, tol = None, 0
            print("implementation raised", type(e).__name__, e)
        ctx.coq_build("C05")
        exe = dft_extract.build(ctx, "c05", EXTRACT_REQ, EXTRACT_CMD, "filt", "c05_driver.ml")
        if exe:
            model = np.array(parse_floats(dft_extract.run_lines(exe, [case_line(c)])[0]))
            print("model         :", model)
            if impl is not None and impl.shape == model.shape:
                d = float(np.max(np.abs(impl - model))) if len(impl) else 0.0
                print("max |impl-model| = %.3g, tolerance %.3g -> %s" % (d, tol, "AGREE" if d <= tol else "DISAGREE"))
                return 0 if d <= tol else 1
        return 1
    if obj.get("kind") == "probe":
        rel = obj["relation"]
        n, times, x, fr = obj["n"], obj["times"], obj["values"], obj["fr"]
        k, p1, p2, p3 = obj["resp"]
        g = py_response(int(k), p1, p2, p3)
        xa = np.array(x)
        print("relation %s, n=%d, dt=%r, response=%s%r, force_real=%d" % (rel, n, times[1] - times[0], KIND_NAMES[int(k)], (p1, p2, p3), fr))
        if rel in ("stateful", "stateful-table"):
            st = StoredResponse(int(k), (p1, p2, p3), obj["mode"])
            pure = py_response(int(k), p1, p2, p3)
            via, frs, rc = obj["via"], obj["frs"], 0
            tol = 6 * probe_tol(n, snorm(xa) + snorm(np.array(obj["values2"])), hmax(int(k), p1, p2, p3))
            seq = [xa, np.array(obj["values2"]), xa + np.array(obj["values2"]), 3.0 * xa, xa, xa]
            for i, v in enumerate(seq):
                f = (lambda r: impl_filter(times, list(v), r, frs[i]) if via[i] == "signal" else impl_function_signal(times, list(v), [(r, frs[i])]))
                d = float(np.max(np.abs(f(st) - f(pure))))
                print("application %d (%s, force_real=%d): stored vs freshly computed response differ by %.3g (tolerance %.3g)" % (i + 1, via[i], frs[i], d, tol))
                rc = rc or (1 if d > tol else 0)
            print("stored response table unmodified afterwards:", st.unmodified())
            return rc or (0 if st.unmodified() else 1)
        if rel == "delay":
            m = obj["m"]
            out = impl_filter(times, x, py_response(1, m * (times[1] - times[0]), 0, 0), fr)
            exp = np.concatenate((np.zeros(m), xa[:n - m]))
            print("implementation:", out)
            print("expected (model theorem delay_no_wraparound):", exp)
            d = float(np.max(np.abs(out - exp)))
            print("max diff", d)
            return 0 if d <= probe_tol(n, snorm(xa), 1.0) * max(1, m) else 1
        if rel == "identity":
            out = impl_filter(times, x, lambda f: np.ones(np.shape(f)), fr)
            print("implementation:", out, "\nexpected:", xa)
            return 0 if float(np.max(np.abs(out - xa))) <= probe_tol(n, snorm(xa), 1.0) else 1
        if rel == "passive":
            out = impl_filter(times, x, g, fr)
            print("energy in %.17g out %.17g" % (np.sum(xa * xa), np.sum(out * out)))
            return 0 if np.sum(out * out) <= np.sum(xa * xa) * (1 + 1e-9) else 1
        if rel == "linear":
            a, b, ya = obj["a"], obj["b"], np.array(obj["values2"])
            lhs = impl_filter(times, a * xa + b * ya, g, fr)
            rhs = a * impl_filter(times, x, g, fr) + b * impl_filter(times, list(ya), g, fr)
            print("filter(a x + b y):", lhs, "\na filter(x) + b filter(y):", rhs)
            return 0 if float(np.max(np.abs(lhs - rhs))) <= 3 * probe_tol(n, abs(a) * snorm(xa) + abs(b) * snorm(ya), hmax(int(k), p1, p2, p3)) else 1
        if rel == "offset":
            tb = [obj["offset"] + t for t in times]
            o1, o2 = impl_filter(times, x, g, fr), impl_filter(tb, x, g, fr)
            print("offset 0:", o1, "\noffset %r:" % obj["offset"], o2)
            return 0 if np.array_equal(o1, o2) else 1
        if rel == "function_signal":
            o1, o2 = impl_function_signal(times, x, [(g, fr)]), impl_filter(times, x, g, fr)
            print("FunctionSignal:", o1, "\nSignal:", o2)
            return 0 if float(np.max(np.abs(o1 - o2))) <= probe_tol(n, snorm(xa), hmax(int(k), p1, p2, p3)) else 1
        if rel == "force_real":
            dt = times[1] - times[0]
            gsym = make_gsym(g, int(k), n, dt)
            o1, o2 = impl_filter(times, x, g, 1), impl_filter(times, x, gsym, 0)
            print("force_real=True:", o1, "\nplain filter with the Hermitian-symmetrised response:", o2)
            d = float(np.max(np.abs(o1 - o2)))
            print("max diff", d)
            return 0 if d <= 3 * probe_tol(n, snorm(xa), hmax(int(k), p1, p2, p3)) else 1
        if rel == "homogeneous":
            c = obj["c"]
            lhs = impl_filter(times, x, (lambda f: c * g(f)), fr)
            rhs = c * impl_filter(times, x, g, fr)
            print("filter(x, c H):", lhs, "\nc filter(x, H):", rhs)
            return 0 if float(np.max(np.abs(lhs - rhs))) <= 3 * probe_tol(n, snorm(xa), (abs(c) + 1) * hmax(int(k), p1, p2, p3) + 1) else 1
        out = impl_filter(times, x, g, fr)
        print("implementation output:", out)
        return 1
    print("unknown replay object")
    return 1
