(* C17: thermal noise is band-limited, has the requested RMS, is reproducible in absolute time.
   Statements only; proofs in Proofs/C17_proofs.v, DFT theory in Lib/DFT.v, model (the code
   as written, after the two fix: commits) in Model/NoiseModel.v. *)
From Coq Require Import Reals ZArith List Bool Arith.
From Coquelicot Require Import Coquelicot.
From PyrexLib Require Import DFT.
From PyrexModel Require Import NoiseModel.
From PyrexGen Require Import Gen_noise.
From PyrexProofs Require Import C17_proofs C17_scale.
Import ListNotations.
Local Open Scope R_scope.

(* published frequencies lie in the requested band: FFT variant (rfft bins, closed band) *)
Theorem freqs_in_band_fft : forall M dt fmin fmax f,
  In f (fft_freqs M dt fmin fmax) -> fmin <= f <= fmax.
Proof. exact fft_freqs_in_band. Qed.
Print Assumptions freqs_in_band_fft.

(* ... and they are exactly the rfft bins in the band, each once *)
Theorem band_bins_exact : forall M dt fmin fmax k,
  In k (band_bins M dt fmin fmax) <-> (k < M / 2 + 1)%nat /\ fmin <= rfftfreq M dt k <= fmax.
Proof. exact band_bins_spec. Qed.
Print Assumptions band_bins_exact.

(* Full variant (linspace without end point, half-open band) *)
Theorem freqs_in_band_full : forall fmin fmax n f, fmin < fmax ->
  In f (full_freqs fmin fmax n) -> fmin <= f < fmax.
Proof. exact full_freqs_in_band. Qed.
Print Assumptions freqs_in_band_full.

(* Full variant: the value at any time is the published cosine sum, scaled *)
Theorem full_is_cosine_sum : forall freqs amps phases rms t,
  full_noise_value freqs amps phases rms t
  = rms * sqrt (2 / INR (length freqs)) * list_sum_R (cos_terms freqs amps phases t).
Proof. exact full_is_cosine_sum_lemma. Qed.
Print Assumptions full_is_cosine_sum.

(* inverse real FFT of a spectrum a_k e^{-i phi_k} = sum of cosines on the M-sample grid *)
Theorem irfft_is_cosine_sum : forall M nf A Phi n, (0 < M)%nat -> (0 < nf)%nat -> A 0%nat = 0 ->
  fft_value M nf A Phi n
  = sqrt (2 / INR nf) * Rsum (fun k => A k * cos (2 * PI * IZR (Z.of_nat k * Z.of_nat n) / INR M - Phi k)) (M / 2 + 1).
Proof. exact fft_value_cosine_sum. Qed.
Print Assumptions irfft_is_cosine_sum.

(* FFT variant: on the whole sampling lattice t0 + n dt (every integer n: inside the window,
   in later periods, before the start) the value is the cosine sum over the rfft bins ... *)
Theorem fft_is_cosine_sum_on_grid : forall z (n : Z),
  let M := fn_M z in let bins := fn_bins z in let nf := length bins in
  let A := scatter bins (fn_amps z) in let Phi := scatter bins (fn_phases z) in
  0 < fn_dt z -> (2 <= M)%nat -> (1 <= fn_ntimes z)%nat -> (0 < nf)%nat ->
  fn_tend z = fn_t0 z + INR (fn_ntimes z - 1) * fn_dt z ->
  A 0%nat = 0 ->
  fft_noise_value z (fn_t0 z + IZR n * fn_dt z)
  = fn_rms z * sqrt (2 / INR nf) * grid_cosine_sum M (fn_dt z) A Phi (IZR n * fn_dt z).
Proof. exact fft_noise_on_grid. Qed.
Print Assumptions fft_is_cosine_sum_on_grid.

(* ... which is the sum over the published basis (freqs, amps, phases), phase convention
   a cos(2 pi f (t - t0) - phi) ... *)
Theorem grid_sum_is_published_basis : forall z tau,
  length (fn_amps z) = length (fn_bins z) -> length (fn_phases z) = length (fn_bins z) ->
  grid_cosine_sum (fn_M z) (fn_dt z) (scatter (fn_bins z) (fn_amps z)) (scatter (fn_bins z) (fn_phases z)) tau
  = basis_cosine_sum (fn_freqs z) (fn_amps z) (fn_phases z) tau.
Proof. exact grid_cosine_sum_basis. Qed.
Print Assumptions grid_sum_is_published_basis.

(* ... and the DC hypothesis holds for the amplitudes the constructor publishes *)
Theorem dc_amplitude_is_zero : forall M dt fmin fmax amps0,
  scatter (band_bins M dt fmin fmax) (zero_dc (fft_freqs M dt fmin fmax) amps0) 0 = 0.
Proof. exact scatter_dc_zero. Qed.
Print Assumptions dc_amplitude_is_zero.

(* mean square over the M-sample period (Parseval), amplitudes on interior bins *)
Theorem fft_mean_square_parseval : forall M nf A Phi rms, (0 < M)%nat -> (0 < nf)%nat -> interior_support M A ->
  / INR M * Rsum (fun n => (fft_value M nf A Phi n * rms) * (fft_value M nf A Phi n * rms)) M
  = rms * rms * (Rsum (fun k => A k * A k) (M / 2 + 1) / INR nf).
Proof. exact fft_mean_square. Qed.
Print Assumptions fft_mean_square_parseval.

(* the same for EVERY band (DC amplitude zero - see dc_amplitude_is_zero -, Nyquist bin allowed): with the doubled
   Nyquist weight that bin contributes 2 cos^2(phase) times its squared amplitude, every other bin its squared
   amplitude; in terms of the published basis *)
Theorem fft_mean_square_every_band : forall z,
  let M := fn_M z in let bins := fn_bins z in let nf := length bins in
  let A := scatter bins (fn_amps z) in let Phi := scatter bins (fn_phases z) in
  (0 < M)%nat -> (0 < nf)%nat -> length (fn_amps z) = nf -> A 0%nat = 0 ->
  / INR M * Rsum (fun n => (fft_value M nf A Phi n * fn_rms z) * (fft_value M nf A Phi n * fn_rms z)) M
  = fn_rms z * fn_rms z * (sum_pairs (fun a b => a * a * nyq_factor M Phi b) bins (fn_amps z) / INR nf).
Proof. exact fft_mean_square_published. Qed.
Print Assumptions fft_mean_square_every_band.

(* unit amplitudes, band not containing the DC bin: the mean square over the period is rms^2 exactly, except that a
   Nyquist bin in the band (even M) adds rms^2 (2 cos^2(phi_Nyq) - 1)/n: the samples of a Nyquist-frequency cosine
   depend on its phase (zero on average over a uniform phase).  A band touching 0 publishes amplitude 0 for its DC bin,
   which still counts in n: fft_mean_square_every_band then gives rms^2 (n-1)/n for a unit-amplitude specification. *)
Theorem unit_amp_mean_square : forall z,
  let M := fn_M z in let bins := fn_bins z in let nf := length bins in
  let A := scatter bins (fn_amps z) in let Phi := scatter bins (fn_phases z) in
  (0 < M)%nat -> (0 < nf)%nat -> length (fn_amps z) = nf ->
  List.Forall (fun a => a = 1) (fn_amps z) -> ~ In 0%nat bins ->
  / INR M * Rsum (fun n => (fft_value M nf A Phi n * fn_rms z) * (fft_value M nf A Phi n * fn_rms z)) M
  = fn_rms z * fn_rms z *
    (1 + (if (Nat.even M && existsb (Nat.eqb (M / 2)) bins)%bool
          then 2 * (cos (Phi (M / 2)%nat) * cos (Phi (M / 2)%nat)) - 1 else 0) / INR nf).
Proof. exact unit_amp_mean_square_lemma. Qed.
Print Assumptions unit_amp_mean_square.

(* ... in particular exactly the requested RMS when the band has neither DC nor Nyquist bin *)
Theorem unit_amp_rms : forall z,
  let M := fn_M z in let bins := fn_bins z in let nf := length bins in
  let A := scatter bins (fn_amps z) in let Phi := scatter bins (fn_phases z) in
  (0 < M)%nat -> (0 < nf)%nat -> length (fn_amps z) = nf ->
  List.Forall (fun a => a = 1) (fn_amps z) ->
  (forall b, In b bins -> interior M b = true) ->
  / INR M * Rsum (fun n => (fft_value M nf A Phi n * fn_rms z) * (fft_value M nf A Phi n * fn_rms z)) M
  = fn_rms z * fn_rms z.
Proof. exact unit_amp_rms_lemma. Qed.
Print Assumptions unit_amp_rms.

(* Full variant: frequencies m_i df (distinct, 0 < 2 m_i < M), M = 1/(df dt) samples = one common period, ANY window
   start ts: the mean square is rms^2 sum a_i^2 / n, hence rms^2 exactly for unit amplitudes *)
Theorem full_mean_square_over_period : forall ms df dt (M : nat) amps phases rms ts,
  (0 < M)%nat -> INR M * df * dt = 1 -> NoDup ms -> (forall m, In m ms -> interior M m = true) ->
  ms <> [] -> length amps = length ms -> length phases = length ms ->
  / INR M * Rsum (fun n => let v := full_noise_value (map (fun m => INR m * df) ms) amps phases rms (ts + INR n * dt) in v * v) M
  = rms * rms * (list_sum_R (map (fun a => a * a) amps) / INR (length ms)).
Proof. exact full_mean_square_lemma. Qed.
Print Assumptions full_mean_square_over_period.

Theorem full_unit_amp_rms : forall ms df dt (M : nat) amps phases rms ts,
  (0 < M)%nat -> INR M * df * dt = 1 -> NoDup ms -> (forall m, In m ms -> interior M m = true) ->
  ms <> [] -> length amps = length ms -> length phases = length ms -> List.Forall (fun a => a = 1) amps ->
  / INR M * Rsum (fun n => let v := full_noise_value (map (fun m => INR m * df) ms) amps phases rms (ts + INR n * dt) in v * v) M
  = rms * rms.
Proof. exact full_unit_amp_rms_lemma. Qed.
Print Assumptions full_unit_amp_rms.

(* the scale the code passes to np.random.rayleigh for its default amplitudes (read from the source on every run,
   coq/Gen/Gen_noise.v) satisfies 2 sigma^2 = 1; with E a^2 = 2 sigma^2 for a ~ Rayleigh(sigma) (cited) the default
   amplitudes have E a^2 = 1, i.e. give the requested RMS on average *)
Theorem rayleigh_scale_unit_second_moment :
  2 * (rayleigh_scale_fft * rayleigh_scale_fft) = 1 /\ 2 * (rayleigh_scale_full * rayleigh_scale_full) = 1.
Proof. exact (conj rayleigh_scale_fft_second_moment rayleigh_scale_full_second_moment). Qed.
Print Assumptions rayleigh_scale_unit_second_moment.

(* rms = sqrt(k_B T R bandwidth) when temperature and resistance are given; an explicit rms wins *)
Theorem rms_kTRB : forall T Rs fmin fmax,
  noise_rms None (Some T) (Some Rs) fmin fmax = Some (sqrt (k_B * T * Rs * (fmax - fmin))).
Proof. exact rms_kTRB_lemma. Qed.
Print Assumptions rms_kTRB.

Theorem rms_explicit_wins : forall r T Rs fmin fmax, noise_rms (Some r) T Rs fmin fmax = Some r.
Proof. exact rms_given. Qed.
Print Assumptions rms_explicit_wins.

(* the complete precedence table of the amplitude configuration (every argument absent / zero / anything): an explicit
   rms_voltage - INCLUDING 0 - always wins; otherwise temperature and resistance must both be present; otherwise there is
   no rms (ValueError) *)
Theorem rms_precedence_table : forall rms T Rs fmin fmax,
  noise_rms rms T Rs fmin fmax =
  match rms, T, Rs with
  | Some r, _, _ => Some r
  | None, Some t, Some rs => Some (sqrt (k_B * t * rs * (fmax - fmin)))
  | None, _, _ => None
  end.
Proof. exact rms_table. Qed.
Print Assumptions rms_precedence_table.

Theorem rms_zero_is_zero : forall T Rs fmin fmax, noise_rms (Some 0) T Rs fmin fmax = Some 0.
Proof. exact rms_zero. Qed.
Print Assumptions rms_zero_is_zero.

(* ... and a zero rms is a zero waveform, both variants *)
Theorem zero_rms_zero_waveform :
  (forall z t, fn_rms z = 0 -> fft_noise_value z t = 0) /\ (forall freqs amps phases t, full_noise_value freqs amps phases 0 t = 0).
Proof. exact (conj fft_zero_rms full_zero_rms). Qed.
Print Assumptions zero_rms_zero_waveform.

(* values are a function of (basis, absolute time): re-gridding reproduces the values at
   shared sample times (both variants); two objects with the same basis record z are the
   same function by construction of the model *)
Theorem absolute_time_fft : forall z ts1 ts2 i j, (i < length ts1)%nat -> (j < length ts2)%nat ->
  nth i ts1 0 = nth j ts2 0 ->
  nth i (fft_noise_values z ts1) 0 = nth j (fft_noise_values z ts2) 0.
Proof. exact fft_absolute_time. Qed.
Print Assumptions absolute_time_fft.

Theorem absolute_time_full : forall freqs amps phases rms ts1 ts2 i j, (i < length ts1)%nat -> (j < length ts2)%nat ->
  nth i ts1 0 = nth j ts2 0 ->
  nth i (full_noise_values freqs amps phases rms ts1) 0 = nth j (full_noise_values freqs amps phases rms ts2) 0.
Proof. exact full_absolute_time. Qed.
Print Assumptions absolute_time_full.

Theorem deterministic_in_basis : forall z ts i, (i < length ts)%nat ->
  nth i (fft_noise_values z ts) 0 = fft_noise_value z (nth i ts 0).
Proof. exact fft_values_nth. Qed.
Print Assumptions deterministic_in_basis.

(* the periodic interpolant returns FFT sample (n mod M) at lattice point n *)
Theorem interpolation_period_is_M_samples : forall t0 dt M v (n : Z), 0 < dt -> (0 < M)%nat ->
  interp_periodic t0 dt (INR M * dt) M v (t0 + IZR n * dt) = v (Z.to_nat (n mod Z.of_nat M)).
Proof. exact interp_on_grid. Qed.
Print Assumptions interpolation_period_is_M_samples.
