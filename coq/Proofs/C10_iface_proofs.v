(* C10: the generated interface table (coq/Gen/Gen_iface.v, from the source on every run):
   every shipped callee accepts the call the kernel makes.  Finite domain, enumerated
   completely, decided by vm_compute. *)
From Coq Require Import List ZArith Bool String.
From PyrexModel Require Import KernelModel.
From PyrexGen Require Import Gen_iface.
Import ListNotations.

Lemma interfaces_compatible_lemma :
  forallb (fun x : string * signature * callsite => accepts (snd (fst x)) (snd x)) calls = true.
Proof. vm_compute. reflexivity. Qed.

Lemma calls_counted_lemma : List.length calls = n_calls /\ (0 < n_calls)%nat.
Proof. vm_compute. split; [reflexivity | repeat constructor]. Qed.
