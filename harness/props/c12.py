"""C12: every way of reading or continuing a file yields the same event stream.

Theorems: coq/Props/C12.v about coq/Model/IOModel.v (EventIterator chunk loading as written,
HDF5Reader.__getitem__ int / slice, append-mode counter recovery, FileGenerator).  Tie to the
code: on real files written by the real writer, every access path (iteration with every
slice_range, every index, slices in all spellings, append splits, FileGenerator over 1-3
files) is run on the real readers and compared with the model event for event."""
import glob
import json
import os

from harness import common
from harness import io_common as ioc

PROP = "C12"


def _mk_opts(rng, i):
    o = ioc.gen_opts(rng, i)
    if rng.random() < 0.85:
        o["write_particles"] = True
        if not ioc.records_particles(o):
            o["require_trigger"] = rng.choice([False, True, ["waveforms"], ["rays", "noise"]])
            if o["write_antenna_triggers"]:
                o["write_triggers"] = True
    return o


def access_cases(ctx, n_files, max_adds, max_slices):
    rng = ctx.rng
    cases = []
    for i in range(n_files):
        if i % 3 == 2:
            # appended file whose tables have different row counts (low trigger rate, data written
            # only on trigger): every chunk size / index / slice must still agree on it
            fc = ioc.gen_filecase(rng, rng.randrange(3, max_adds + 1), opts=ioc.gen_opts_uneven(rng), p_bad=0.15,
                                  nsessions=rng.choice([2, 2, 3]), p_trig=0.3)
        else:
            fc = ioc.gen_filecase(rng, rng.randrange(1, max_adds + 1), opts=_mk_opts(rng, i), p_bad=0.2)
        if i % 2 == 0:
            # a mode='a' post-processing pass adds an analysis dataset with rows for an arbitrary subset
            # of the events (blocks in arbitrary order); every access path must return each event's own rows
            fc["analysis"] = {"seed": rng.randrange(1 << 30), "p": rng.choice([0.3, 0.5, 0.7])}
        cases.append({"files": [fc], "queries": [], "_max_slices": max_slices})
    return cases


def history_cases(ctx, n_files, n_hist):
    """Small ragged files (5-8 events, 1-3 particles and 0-3 waveforms / rays each, some untriggered)
    on which hundreds of iterator op histories are run: (slice_range, slice, next/iter/for/islice
    history) combinations on ONE iterator object each."""
    rng = ctx.rng
    cases = []
    for i in range(n_files):
        o = ioc.gen_opts_uneven(rng) if i % 2 else _mk_opts(rng, i)
        o["write_particles"] = True
        if not ioc.records_particles(o):
            o["require_trigger"] = True
            if o["write_antenna_triggers"]:
                o["write_triggers"] = True
        fc = ioc.gen_filecase(rng, rng.randrange(5, 9), opts=o, p_bad=0.05, nsessions=rng.choice([1, 2]), p_nodet=0.0)
        if i % 2 == 0:
            fc["analysis"] = {"seed": rng.randrange(1 << 30), "p": 0.5}
        cases.append({"files": [fc], "queries": [], "_hist": n_hist})
    return cases


def gen_cases_multi(ctx, n_cases, max_adds):
    rng = ctx.rng
    cases = []
    for i in range(n_cases):
        nf = rng.choice([1, 2, 2, 3])
        files = []
        for _ in range(nf):
            o = _mk_opts(rng, rng.randrange(64))
            o["write_particles"] = True
            if not ioc.records_particles(o):
                o["require_trigger"] = True
                if o["write_antenna_triggers"]:
                    o["write_triggers"] = True
            files.append(ioc.gen_filecase(rng, rng.randrange(1, max_adds + 1), opts=o, p_bad=0.15))
        cases.append({"files": files, "queries": [], "_gen": True})
    return cases


def split_cases(ctx, n_seq, n_adds):
    """All splits of one add sequence into <= 3 append sessions, as the files of one case.
    Two of three sequences use option mixes / trigger rates that give the tables different row
    counts at the moment of re-opening."""
    rng = ctx.rng
    cases = []
    for i in range(n_seq):
        m = rng.randrange(3, n_adds + 1)
        if i % 3 != 2:
            base = ioc.gen_filecase(rng, m, opts=ioc.gen_opts_uneven(rng), p_bad=0.15, nsessions=1, p_trig=0.3)
        else:
            base = ioc.gen_filecase(rng, m, opts=_mk_opts(rng, i), p_bad=0.3, nsessions=1)
        adds = base["sessions"][0]
        files = [base]
        for c1 in range(0, m + 1):
            files.append(dict(base, sessions=[adds[:c1], adds[c1:]]))
            for c2 in range(c1, m + 1):
                if rng.random() < (1.0 if ctx.thorough else 0.35):
                    files.append(dict(base, sessions=[adds[:c1], adds[c1:c2], adds[c2:]]))
        cases.append({"files": files, "queries": [], "split_group": True})
    return cases


def reader_accessor_queries(rng, fid, rec, cap=48):
    """The file-level per-event accessor HDF5Reader.get_waveforms for every event_id in -n-1..n (the two
    outside must raise on both sides) and every waveform index 0..rows+1, in int / float / str forms,
    with and without antenna_id: must agree with f[i] / the sequential pass."""
    evs = rec["events"]
    if evs[0] != "ok":
        return []
    n = len(evs[2])
    qs = []
    for e in range(-n - 1, n + 1):
        qs.append(["wfev", fid, None, e])
        if -n <= e < n:
            w = evs[2][e % n][ioc.TABLES.index("W")]
            nrows = len(w) if isinstance(w, list) else 0
        else:
            nrows = 0
        for k in range(nrows + 2):
            qs.append(["wf", fid, None, e, k, rng.choice(["int", "int", "str", "float"])])
    return rng.sample(qs, cap) if len(qs) > cap else qs


def make_qgen(ctx):
    rng = ctx.rng

    def qgen(case, recs):
        qs = []
        if case.get("split_group"):
            for i, r in enumerate(recs):
                if r["ctor"] is None:
                    n = len(r["index"])
                    ks = [None, 1, 2, 3, max(2, n - 1)]
                    qs += [["iter", i, k] for k in (ks if ctx.thorough else rng.sample(ks, 2))]
                    if ctx.thorough or i == 0 or rng.random() < 0.3:
                        qs += [["int", i, None, j] for j in range(n)]
            return qs
        if case.get("_hist"):
            for i, r in enumerate(recs):
                if r["ctor"] is None:
                    qs += ioc.gen_histories(rng, i, len(r["index"]), case["_hist"])
                    qs += ioc.gen_histories2(rng, i, len(r["index"]), case["_hist"] // 2)
            return qs
        if case.get("_gen"):
            if any(r["ctor"] is not None for r in recs):
                return []
            ns = [len(r["index"]) for r in recs]
            ks = sorted(set([1, 2, 3, 100, max(ns), max(ns) + 1] + [rng.randrange(1, max(ns) + 2)]))
            fids = list(range(len(recs)))
            for k in ks:
                qs.append(["gen", k, fids])
            qs.append(["gen", rng.choice(ks), [rng.choice(fids)]])
            if len(fids) > 1:
                qs.append(["gen", rng.choice(ks), list(reversed(fids))])
            return qs
        for i, r in enumerate(recs):
            if r["ctor"] is None:
                qs += ioc.gen_queries(rng, i, len(r["index"]), thorough=ctx.thorough, max_slices=case.get("_max_slices"))
                qs += reader_accessor_queries(rng, i, r)
                qs.append(["gen", rng.choice([1, 2, 3, 100]), [i]])
        return qs
    return qgen


def corpus_cases():
    return [json.load(open(f))["case"] for f in sorted(glob.glob(os.path.join(common.ROOT, "corpus", PROP, "*.json")))]


def fails_property(ctx):
    def f(case):
        impl = ioc.run_impl(case, ctx.scratch, tag="shrink")
        return ioc.judge(case, impl, PROP)
    return f


def fails_corr(ctx):
    def f(case):
        impl = ioc.run_impl(case, ctx.scratch, tag="shrink")
        out = ioc.eval_models(ctx, [case])[0]
        return ioc.compare(case, impl, out)
    return f


def run(ctx):
    ctx.rule = ("files written by the real HDF5Writer from generated add sequences (as in C11, ~20% malformed adds, 1..3 sessions); "
                "access paths run on the real HDF5Reader / EventIterator / FileGenerator: len, iteration with slice_range None and every "
                "1..n+1, f[i] for every i in -n-1..n, f[a:b:s] for every 0<=a<b<=n, s in {None,1,2,3,4}, bounds spelled positive / negative / "
                "omitted, reader slice_range None or 1..n+1, plus out-of-domain slices; every split of an add sequence into <=3 append "
                "sessions (file contents, counters and events must equal the single-session file); FileGenerator over 1..3 files in both "
                "orders with slice_range in {1,2,3,n,n+1,100}.  Each event is observed through all accessors and fingerprinted; compared "
                "with the Coq model (vm_compute) event for event and, independently, with the sequential pass of the same file; "
                "non-trivial = file with at least one accepted add")
    ctx.trusted += ["Coq 8.16.1 kernel, vm_compute (evaluation of the model on the generated cases)",
                    "coq/Model/IOModel.v is a hand-written model of pyrex/io.py and generation.py FileGenerator: agreement with the code is checked by the correspondence run, not proved",
                    "harness/io_common.py: stub objects, canonicalisation, event fingerprint (polynomial hash mod 2^61-1 of the canonical observation: equal data always gives equal fingerprints)"]
    ctx.assumptions += ["theorems quantify over files holding at least one event whose configuration records particles for every event (the reader needs the particles group)",
                        "FileGenerator.count is modelled with exact integer arithmetic; the code's floating-point (k+1)/n*T may be one lower mid-file, so the correspondence accepts model or model-1 for intermediate counts; the count after each file is exact and proved",
                        "Particle objects rebuilt by FileGenerator are compared field by field with the particle that was written (python side); the model carries only the tag"]
    ok = ctx.coq_build(PROP)
    changed, cur = ioc.pins_changed(common.REPO, common.ROOT)
    ctx.extra["ast_pins_changed"] = changed
    escalate = bool(changed) or not ok
    big = ctx.thorough      # a changed pin / failed proof adds the search batch; the main batch keeps its tier size (time cap)
    stats = {}
    problems = []
    qgen = make_qgen(ctx)
    corp = corpus_cases()
    if corp:
        problems += ioc.run_batch(ctx, corp, PROP, stats, label="k")
    cases = access_cases(ctx, ctx.n(12, 15) if big else 6, 9 if ctx.thorough else 7, None if ctx.thorough else 40)
    cases += gen_cases_multi(ctx, ctx.n(10, 20) if big else 5, 8 if ctx.thorough else 6)
    cases += split_cases(ctx, ctx.n(4, 5) if big else 2, 6 if ctx.thorough else 5)
    cases += history_cases(ctx, ctx.n(2, 5), ctx.n(130, 240))
    for c in cases:
        c.pop("_dummy", None)
    problems += ioc.run_batch(ctx, cases, PROP, stats, query_gen=qgen, label="g")
    if ctx.thorough or escalate or problems:
        extra = access_cases(ctx, ctx.n(3, 24), 6, 40) + gen_cases_multi(ctx, ctx.n(3, 15), 5) + split_cases(ctx, ctx.n(1, 4), 4) + history_cases(ctx, ctx.n(1, 3), ctx.n(90, 200))
        problems += ioc.run_batch(ctx, extra, PROP, stats, query_gen=qgen, with_model=False, label="s")
        ctx.extra["search"] = {"ran": True, "evaluations": len(extra), "oracle": "sequential pass of the same file (every access path must reproduce it), single-session file (append splits), particles of the sequential pass (FileGenerator)"}
    else:
        ctx.extra["search"] = {"ran": False}
    ioc.finish_stats(ctx, stats)
    ioc.report(ctx, PROP, problems, fails_property(ctx), fails_corr(ctx))


def replay(ctx, obj):
    return ioc.replay_case(ctx, obj, PROP)
