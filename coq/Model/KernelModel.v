(* C10: executable model of pyrex/kernel.py EventKernel.event AS WRITTEN, parameterised by
   oracles for the exchangeable components (generator output, ray tracer solutions,
   signal model success, trigger function values).  The model produces the ordered log of
   calls the kernel makes on its components, the writer call and the return value.

   Angles are integer degrees and directions integer vectors: the correspondence uses
   axis-aligned unit directions, for which normalize() is the identity (or the zero
   vector) and arccos of the dot product is 0, 90 or 180 degrees.

   No proofs here (coq/Proofs/C10_proofs.v). *)
From Coq Require Import List ZArith Bool.
Import ListNotations.
Open Scope Z_scope.

Definition vec := (Z * Z * Z)%type.
Definition dot (a b : vec) : Z :=
  let '(a1, a2, a3) := a in let '(b1, b2, b3) := b in a1 * b1 + a2 * b2 + a3 * b3.
Definition scale (k : Z) (a : vec) : vec := let '(a1, a2, a3) := a in (k * a1, k * a2, k * a3).
Definition vsub (a b : vec) : vec :=
  let '(a1, a2, a3) := a in let '(b1, b2, b3) := b in (a1 - b1, a2 - b2, a3 - b3).

(* nu_pol = normalize(vdot(emitted, direction) * emitted - direction) *)
Definition nu_pol (emitted direction : vec) : vec := vsub (scale (dot emitted direction) emitted) direction.
(* psi = arccos(vdot(direction, emitted)) in degrees, for unit axis-aligned vectors *)
Definition psi_deg (direction emitted : vec) : Z :=
  let d := dot direction emitted in if d =? 1 then 0 else if d =? 0 then 90 else 180.

(* one ray-trace solution *)
Record path := mkpath { p_id : Z; p_tof : Z; p_emit : vec; p_recv : Z; p_len : Z }.
(* one particle of the event: weights, direction, Cherenkov angle at its vertex (degrees) *)
Record particle := mkpart { q_id : Z; q_w : Z; q_surv : option Z; q_int : option Z; q_dir : vec; q_thc : Z }.

Inductive wmin := WScalar (w : Z) | WPair (w0 w1 : Z).
Inductive trig := TNone | TFun (b : bool) | TDict (l : list (Z * bool)).   (* key 0 = 'global' *)
Inductive trigres := TRNone | TRBool (b : bool) | TRDict (l : list (Z * bool)).

Record cfg := mkcfg {
  c_ants : list Z;                              (* the antennas, in iteration order *)
  c_trace : Z -> Z -> option (list path);       (* ray_tracer(vertex, position): None = not exists *)
  c_sig : Z -> Z -> bool;                       (* signal_model(particle, path): false = raises ValueError *)
  c_omax : Z;                                   (* offcone_max in degrees (180 when None) *)
  c_wmin : wmin;
  c_interp : Z;                                 (* code of the attenuation_interpolation value *)
  c_trig : trig;
  c_writer : bool;
  c_t0 : Z                                      (* origin of signal_times *)
}.

Inductive call :=
| CCreate                                        (* generator.create_event() *)
| CTrace (pid aid : Z)                           (* ray_tracer(particle.vertex, ant.position, ice_model=ice) *)
| CSignal (pid pth psi len t0 : Z)               (* signal_model(times=signal_times, particle=, viewing_angle=psi, viewing_distance=path_length, ice_model=) *)
| CPropagate (pth pid : Z) (pol : vec) (interp : Z)  (* path.propagate(signal=pulse, polarization=nu_pol, attenuation_interpolation=) *)
| CRecvEmpty (aid pth t : Z)                     (* ant.receive(EmptySignal(signal_times + path.tof, field)) ; t = origin of its grid *)
| CRecv (aid pth pid recvdir : Z)                (* ant.receive(ant_pulses, direction=path.received_direction, polarization=ant_pols) *)
| CTrig (key : Z)                                (* trigger function called on the antennas (key -1: the single function) *)
| CWrite (t : trigres) (rps : list (list Z)) (pls : list (list vec)) (thrown : Z).

Inductive ret := RetEvent (ev : Z) | RetPair (ev : Z) (b : bool) | RetKeyError.

(* weight cut: true = the particle is simulated *)
Definition passes (w : wmin) (q : particle) : bool :=
  match w with
  | WPair w0 w1 =>
    negb ((match q_surv q with Some s => s <? w0 | None => false end)
          || (match q_int q with Some s => s <? w1 | None => false end))
  | WScalar m => negb (q_w q <? m)
  end.

Definition offcone (c : cfg) (q : particle) (p : path) : bool :=
  Z.abs (psi_deg (q_dir q) (p_emit p) - q_thc q) >? c_omax c.

(* body of  for path in rt.solutions  *)
Definition do_path (c : cfg) (q : particle) (a : Z) (p : path) : list call :=
  let pol := nu_pol (p_emit p) (q_dir q) in
  let psi := psi_deg (q_dir q) (p_emit p) in
  if offcone c q p then [CRecvEmpty a (p_id p) (c_t0 c + p_tof p)]
  else if c_sig c (q_id q) (p_id p)
       then [CSignal (q_id q) (p_id p) psi (p_len p) (c_t0 c);
             CPropagate (p_id p) (q_id q) pol (c_interp c);
             CRecv a (p_id p) (q_id q) (p_recv p)]
       else [CSignal (q_id q) (p_id p) psi (p_len p) (c_t0 c);
             CRecvEmpty a (p_id p) (c_t0 c + p_tof p)].

(* body of  for i, ant in enumerate(self.antennas)  for one antenna and its two slots *)
Definition one_ant (c : cfg) (q : particle) (a : Z) (rp : list Z) (pl : list vec)
  : list Z * list vec * list call :=
  match c_trace c (q_id q) a with
  | None => (rp, pl, [CTrace (q_id q) a])
  | Some sols =>
    (rp ++ map p_id sols,
     pl ++ map (fun p => nu_pol (p_emit p) (q_dir q)) sols,
     CTrace (q_id q) a :: flat_map (do_path c q a) sols)
  end.

Fixpoint ant_loop (c : cfg) (q : particle) (ants : list Z) (rps : list (list Z)) (pls : list (list vec))
  : list (list Z) * list (list vec) * list call :=
  match ants, rps, pls with
  | a :: ants', rp :: rps', pl :: pls' =>
    let '(rp1, pl1, calls) := one_ant c q a rp pl in
    let '(rps2, pls2, calls2) := ant_loop c q ants' rps' pls' in
    (rp1 :: rps2, pl1 :: pls2, calls ++ calls2)
  | _, _, _ => (rps, pls, [])
  end.

Fixpoint particle_loop (c : cfg) (qs : list particle) (rps : list (list Z)) (pls : list (list vec))
  : list (list Z) * list (list vec) * list call :=
  match qs with
  | [] => (rps, pls, [])
  | q :: qs' =>
    if passes (c_wmin c) q then
      let '(rps1, pls1, calls) := ant_loop c q (c_ants c) rps pls in
      let '(rps2, pls2, calls2) := particle_loop c qs' rps1 pls1 in
      (rps2, pls2, calls ++ calls2)
    else particle_loop c qs' rps pls
  end.

Definition eval_trig (t : trig) : trigres * list call :=
  match t with
  | TNone => (TRNone, [])
  | TFun b => (TRBool b, [CTrig (-1)])
  | TDict l => (TRDict l, map (fun kv => CTrig (fst kv)) l)
  end.

Fixpoint dict_get (l : list (Z * bool)) (k : Z) : option bool :=
  match l with
  | [] => None
  | (k', v) :: r => if k =? k' then Some v else dict_get r k
  end.

(* EventKernel.event(): generator output (event id, particles, generator count afterwards),
   previous _gen_count; result: new _gen_count, call log, return value *)
Definition event (c : cfg) (gen_count : Z) (ev : Z) (qs : list particle) (count_after : Z)
  : Z * list call * ret :=
  let empty_r := map (fun _ => @nil Z) (c_ants c) in
  let empty_p := map (fun _ => @nil vec) (c_ants c) in
  let '(rps, pls, calls) := particle_loop c qs empty_r empty_p in
  let '(tr, tcalls) := eval_trig (c_trig c) in
  let wcalls := if c_writer c then [CWrite tr rps pls (count_after - gen_count)] else [] in
  let r := match tr with
           | TRNone => RetEvent ev
           | TRBool b => RetPair ev b
           | TRDict l => match dict_get l 0 with Some b => RetPair ev b | None => RetKeyError end
           end in
  (count_after, CCreate :: calls ++ tcalls ++ wcalls, r).

(* a kernel used for several events in a row *)
Fixpoint run (c : cfg) (gen_count : Z) (evs : list (Z * list particle * Z)) : list (list call * ret) :=
  match evs with
  | [] => []
  | (ev, qs, cnt) :: r =>
    let '(gc, calls, rt) := event c gen_count ev qs cnt in (calls, rt) :: run c gc r
  end.

(* ---------------------------------------------------------------- table helpers (for the harness) *)
Fixpoint tbl_trace (l : list (Z * Z * option (list path))) (pid aid : Z) : option (list path) :=
  match l with
  | [] => None
  | (p, a, v) :: r => if (p =? pid) && (a =? aid) then v else tbl_trace r pid aid
  end.
Fixpoint tbl_sig (l : list (Z * Z)) (pid pth : Z) : bool :=   (* listed pairs raise ValueError *)
  match l with
  | [] => true
  | (p, h) :: r => if (p =? pid) && (h =? pth) then false else tbl_sig r pid pth
  end.

(* ---------------------------------------------------------------- interface table checker *)
(* a callable's signature: named parameters (name code, has default) and **kwargs flag;
   a call site: number of positional arguments and keyword names *)
Record signature := mksig { s_params : list (Z * bool); s_varargs : bool; s_varkw : bool }.
Record callsite := mkcall { k_npos : nat; k_kw : list Z }.

Fixpoint has_param (ps : list (Z * bool)) (k : Z) : bool :=
  match ps with [] => false | (k', _) :: r => (k =? k') || has_param r k end.
Fixpoint index_param (ps : list (Z * bool)) (k : Z) (i : nat) : option nat :=
  match ps with [] => None | (k', _) :: r => if k =? k' then Some i else index_param r k (S i) end.

(* Python accepts the call: every keyword names a parameter not already filled positionally
   (or there is **kwargs), no excess positionals (or *args), every parameter without default is given *)
Definition accepts (s : signature) (c : callsite) : bool :=
  forallb (fun k => match index_param (s_params s) k 0 with
                    | Some i => Nat.leb (k_npos c) i
                    | None => s_varkw s
                    end) (k_kw c)
  && (s_varargs s || Nat.leb (k_npos c) (length (s_params s)))
  && forallb (fun '(i, (k, dflt)) => dflt || Nat.ltb i (k_npos c) || existsb (Z.eqb k) (k_kw c))
             (combine (seq 0 (length (s_params s))) (s_params s)).
