"""C11: HDF5 write-read round trip returns each event's own data for every configuration.

Theorems: coq/Props/C11.v about the executable model coq/Model/IOModel.v (induction over
arbitrary add / reopen sequences).  Tie to the code: real h5py files written by the real
HDF5Writer (pyrex.File) from generated add sequences and read back by the real HDF5Reader,
compared with the model's prediction (outcomes, counters, raw index table, column order,
dataset lengths, total_thrown, every accessor of every event)."""
import glob
import json
import os

from harness import common
from harness import io_common as ioc

PROP = "C11"


def gen_cases(ctx, n_files, sizes, rng=None):
    rng = rng or ctx.rng
    cases = []
    for i in range(n_files):
        opts = ioc.gen_opts(rng, i)
        fc = ioc.gen_filecase(rng, rng.choice(sizes), opts=opts)
        cases.append({"files": [fc], "queries": [["len", 0, None]], "_chunked": True})
    return cases


def _qgen(case, recs, rng=None, cap=70):
    """len + the file-level waveform accessor HDF5Reader.get_waveforms for every event and every
    waveform index 0 .. (rows of that event)+1 (int / float / 'direct'/'reflected' forms), i.e.
    including the requests one and two past the event's last waveform."""
    import random
    rng = rng or random.Random(len(json.dumps(case)))
    qs = []
    for i, r in enumerate(recs):
        if r["ctor"] is not None:
            continue
        qs.append(["len", i, None])
        evs = r["events"]
        if evs[0] != "ok":
            continue
        wq = []
        for e, ev in enumerate(evs[2]):
            w = ev[ioc.TABLES.index("W")]
            nrows = len(w) if isinstance(w, list) else 0
            wq.append(["wfev", i, None, e])
            for k in range(nrows + 2):
                wq.append(["wf", i, None, e, k, rng.choice(["int", "int", "str", "float"])])
        if len(wq) > cap:
            # keep every one-past-the-end request of a sample of events, sample the rest
            wq = rng.sample(wq, cap)
        qs += wq
    return qs


def corpus_cases():
    out = []
    for f in sorted(glob.glob(os.path.join(common.ROOT, "corpus", PROP, "*.json"))):
        out.append(json.load(open(f))["case"])
    return out


def fails_property(ctx):
    def f(case):
        impl = ioc.run_impl(case, ctx.scratch, tag="shrink")
        return ioc.judge(case, impl, PROP)
    return f


def fails_corr(ctx):
    def f(case):
        impl = ioc.run_impl(case, ctx.scratch, tag="shrink")
        out = ioc.eval_models(ctx, [case])[0]
        return ioc.compare(case, impl, out)
    return f


def run(ctx):
    ctx.rule = ("each case = one real HDF5 file written through pyrex.File(mode w/a) by a generated sequence of add() calls "
                "(1..3 particles, 0..3 waveforms and rays per antenna, bool / dict / per-waveform-list triggers, detector size 1..4, "
                "all 2^6 write_* combinations swept by index x require_trigger in {False, True, list forms, str form}, 1..3 append sessions, "
                "~25% malformed adds raising at every stage: triggered None / wrong type / no 'global' / too-short per-waveform list, "
                "ray_paths None / wrong length, polarizations None / wrong outer or inner length / 2-component vector, non-scalar particle "
                "metadata, antenna without _noise_master, waveform object without .values); compared with the Coq model evaluated by "
                "vm_compute: per-add outcome (exception class), writer counters at each session end, index-table column order, raw index "
                "table, dataset lengths, dataset existence, total_thrown, len(file), and every accessor of every event (integer tags make "
                "equality exact); non-trivial = at least one accepted add")
    ctx.trusted += ["Coq 8.16.1 kernel, vm_compute (evaluation of the model on the generated cases)",
                    "coq/Model/IOModel.v is a hand-written model of pyrex/io.py: its agreement with the code is checked by the correspondence run, not proved",
                    "harness/io_common.py: stub antenna/ray/noise objects, canonicalisation, h5py raw view",
                    "h5py datasets behave as growable arrays whose resize zero-fills (modelled)"]
    ctx.assumptions += ["theorems quantify over configurations that record particles for every event (write_particles and 'particles' not in require_trigger), as the property does",
                        "mc_triggers columns are abstracted to the set of true component names per row; float/str column layout of metadata groups is not modelled",
                        "contents of rows allocated by an add that later raises are not modelled (they are truncated by the rollback before add returns)",
                        "failure points modelled: those listed in the rule; other exceptions (I/O errors, KeyboardInterrupt) take the same rollback path in the code but are not generated"]
    ok = ctx.coq_build(PROP)
    changed, cur = ioc.pins_changed(common.REPO, common.ROOT)
    ctx.extra["ast_pins_changed"] = changed
    escalate = bool(changed) or not ok
    stats = {}
    problems = []
    corp = corpus_cases()
    if corp:
        problems += ioc.run_batch(ctx, corp, PROP, stats, query_gen=_qgen, label="k")
    if ctx.thorough:       # a changed pin / failed proof adds the search batch only (time cap of the quick tier)
        n_files = ctx.n(110, 380)
        sizes = [0, 1, 2, 3, 4, 6, 8, 12, 16, 25] + ([25, 40, 60, 120, 200] if ctx.thorough else [])
    else:
        n_files, sizes = 64, [0, 1, 2, 3, 4, 5, 6, 8, 10, 12, 16, 25]
    cases = gen_cases(ctx, n_files, sizes)
    problems += ioc.run_batch(ctx, cases, PROP, stats, query_gen=_qgen, label="g")
    # search: property-level probe on more histories, without the model (always when thorough,
    # or when the proof / correspondence / pins are not clean)
    if ctx.thorough or escalate or problems:
        extra = gen_cases(ctx, ctx.n(60, 300), [1, 2, 3, 4, 5, 6, 8, 10])
        problems += ioc.run_batch(ctx, extra, PROP, stats, query_gen=_qgen, with_model=False, label="s")
        ctx.extra["search"] = {"ran": True, "evaluations": len(extra), "oracle": "python restatement of the property from the inputs (expected_event / oracle_c11)"}
    else:
        ctx.extra["search"] = {"ran": False}
    ioc.finish_stats(ctx, stats)
    ioc.report(ctx, PROP, problems, fails_property(ctx), fails_corr(ctx))


def replay(ctx, obj):
    return ioc.replay_case(ctx, obj, PROP)
