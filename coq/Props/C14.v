(* C14: interactions conserve energy, cross sections consistent, event trees well formed.
   Statements only.  GQRS_* / CTW_* / Default_* are regenerated from pyrex/particle.py on every
   run (Gen/Gen_particle.v; np.random.rand() draws are the parameters u, u1, u2);
   Model/EventTree.v and Model/Secondaries.v are hand models tied to the code by the
   correspondence check (harness/props/c14.py).

   Inter = {kind : Interaction.Type value; pid : Particle.Type value; energy (GeV);
            inelasticity; include_secondaries}.
   Results of type option: None = the Python code raises; for choose_shower_fractions
   Some None = the Python function returns None (1000 rejected secondary draws). *)
From Coq Require Import Reals List Bool ZArith Lra Lia.
From Coquelicot Require Import Coquelicot.
From PyrexLib Require Import RealPrims PartPrims.
From PyrexGen Require Import Gen_particle.
From PyrexModel Require Import EventTree.
From PyrexProofs Require Import C14_real C14_formulas C14_tree C14_clauses.
Import ListNotations.
Open Scope R_scope.

(* neutrino p : p is one of the six neutrino types (+-12, +-14, +-16); cc_or_nc k : k = 1 or 2;
   eps s = log10 (energy);  energy in [1e3, 1e12] GeV gives eps in [3, 12].
   Each clause of the property is a definition <name>_stmt : Prop stated at full strength; the
   theorems group them (one Print Assumptions per group keeps the quick tier short). *)

(* neutrino p : p is one of the six neutrino types (+-12, +-14, +-16); cc_or_nc k : k = 1 or 2;
   eps s = log10 (energy);  energy in [1e3, 1e12] GeV gives eps in [3, 12] *)
Definition energy_range_is_eps_range_stmt : Prop :=
  forall s,
  10 ^ 3 <= Inter_energy s <= 10 ^ 12 -> 3 <= eps s <= 12.

(* ================= interaction type ================================================== *)
(* probability of neutral current = measure of {u in [0,1) : NC} = the model's fraction *)
Definition nc_prob_ctw_stmt : Prop :=
  forall s u,
  CTW_choose_interaction s u = (if Rltb u (nc_frac (eps s)) then Type_nc else Type_cc) /\
  (3 <= eps s <= 12 -> 0 < nc_frac (eps s) < 1).

Definition nc_prob_gqrs_stmt : Prop :=
  forall s u,
  GQRS_choose_interaction s u = (if Rltb u 0.6865254 then Type_cc else Type_nc).

(* ================= inelasticity ======================================================= *)
Definition gqrs_y_in_unit_stmt : Prop :=
  forall s u, 0 <= u < 1 -> 0 < GQRS_choose_inelasticity s u <= 1.

(* the generated sampler IS the published inverse-CDF formula (ctw_y: eqs. 14-18 with the
   table-V constants typed in C14_formulas.v; the clamp added against rounding is the
   identity over R) and stays in [0,1], for every draw and every energy up to 1e12 GeV *)
Definition ctw_y_in_unit_stmt : Prop :=
  forall s u1 u2,
  cc_or_nc (Inter_kind s) -> neutrino (Inter_pid s) -> eps s <= 12 -> 0 <= u2 <= 1 ->
  CTW_choose_inelasticity s u1 u2 = Some (ctw_y (Inter_kind s) (Inter_pid s) (eps s) u1 u2) /\
  0 <= ctw_y (Inter_kind s) (Inter_pid s) (eps s) u1 u2 <= 1.

(* the parameters the code uses satisfy the hypotheses of the previous theorem *)
Definition ctw_parameters_admissible_stmt : Prop :=
  forall low kind pid e, e <= 12 ->
  ctw_c1 low kind pid e < 0 /\ 1 < ctw_c2 e.

Theorem interaction_type_and_inelasticity :
  energy_range_is_eps_range_stmt /\
  nc_prob_ctw_stmt /\
  nc_prob_gqrs_stmt /\
  gqrs_y_in_unit_stmt /\
  ctw_y_in_unit_stmt /\
  ctw_parameters_admissible_stmt.
Proof.
  exact (conj energy_range_is_eps_range_clause (conj nc_prob_ctw_clause (conj nc_prob_gqrs_clause (conj gqrs_y_in_unit_clause (conj ctw_y_in_unit_clause ctw_parameters_admissible_clause))))).
Qed.
Print Assumptions interaction_type_and_inelasticity.

(* F(sample r) = r for the two published densities, F normalised, F' = density / norm *)
Definition ctw_y_is_inverse_cdf_stmt : Prop :=
  forall c1 c2 r, c1 < 0 -> 1 < c2 -> 0 <= r <= 1 ->
  low_cdf c1 c2 (low_sample c1 c2 r) = r /\ high_cdf c1 (high_sample c1 r) = r /\
  0 <= low_sample c1 c2 r <= 1e-3 /\ 1e-3 <= high_sample c1 r <= 1 /\
  low_cdf c1 c2 0 = 0 /\ low_cdf c1 c2 1e-3 = 1 /\ high_cdf c1 1e-3 = 0 /\ high_cdf c1 1 = 1 /\
  (forall y, c1 < y -> is_derive (low_cdf c1 c2) y
       (Rpower (y - c1) (- (1 / c2)) * ((1 - 1 / c2) / (Rpower (1e-3 - c1) (1 - 1 / c2) - Rpower (0 - c1) (1 - 1 / c2))))) /\
  (forall y, c1 < y -> is_derive (high_cdf c1) y (1 / (y - c1) * (1 / (ln (1 - c1) - ln (1e-3 - c1))))).

Theorem ctw_y_is_inverse_cdf : ctw_y_is_inverse_cdf_stmt.
Proof. exact ctw_y_is_inverse_cdf_clause. Qed.
Print Assumptions ctw_y_is_inverse_cdf.

(* ================= shower fractions =================================================== *)
(* fractions_ok k p y em had :=  0 <= em /\ 0 <= had /\ em + had <= 1
     /\ (k = NC -> em = 0 /\ had = y)
     /\ (k = CC -> electron flavour -> em = 1 - y /\ had = y /\ em + had = 1)
   for ANY secondary tables (rows), ANY Poisson streams ns and uniform streams us. *)
Definition fractions_spec_ctw_stmt : Prop :=
  forall s tabs ns us,
  cc_or_nc (Inter_kind s) -> neutrino (Inter_pid s) -> 0 < Inter_energy s -> 0 <= Inter_inelasticity s <= 1 ->
  match CTW_choose_shower_fractions s (model_sec CTW_choose_secondary_fractions s tabs ns us) with
  | None => False
  | Some None => Inter_kind s = Type_cc /\ ~ electron_flavour (Inter_pid s) /\ Inter_include_secondaries s = true
  | Some (Some (em, had)) =>
      fractions_ok (Inter_kind s) (Inter_pid s) (Inter_inelasticity s) em had /\
      (Inter_include_secondaries s = false -> (em, had) = primary (Inter_kind s) (Inter_pid s) (Inter_inelasticity s))
  end.

Definition fractions_spec_gqrs_stmt : Prop :=
  forall s tabs ns us,
  cc_or_nc (Inter_kind s) -> neutrino (Inter_pid s) -> 0 < Inter_energy s -> 0 <= Inter_inelasticity s <= 1 ->
  match GQRS_choose_shower_fractions s (model_sec GQRS_choose_secondary_fractions s tabs ns us) with
  | None => False
  | Some None => Inter_kind s = Type_cc /\ ~ electron_flavour (Inter_pid s) /\ Inter_include_secondaries s = true
  | Some (Some (em, had)) =>
      fractions_ok (Inter_kind s) (Inter_pid s) (Inter_inelasticity s) em had /\
      (Inter_include_secondaries s = false -> (em, had) = primary (Inter_kind s) (Inter_pid s) (Inter_inelasticity s))
  end.

(* every secondary is bounded by the lepton energy, for any table and any stream *)
Definition secondaries_bounded_by_lepton_energy_stmt : Prop :=
  forall s tabs le ei ns us, 0 <= le ->
  0 <= fst (GQRS_choose_secondary_fractions s tabs le ei ns us) <= le /\
  0 <= snd (GQRS_choose_secondary_fractions s tabs le ei ns us) <= le /\
  CTW_choose_secondary_fractions = GQRS_choose_secondary_fractions.

Theorem shower_fractions :
  fractions_spec_ctw_stmt /\
  fractions_spec_gqrs_stmt /\
  secondaries_bounded_by_lepton_energy_stmt.
Proof.
  exact (conj fractions_spec_ctw_clause (conj fractions_spec_gqrs_clause secondaries_bounded_by_lepton_energy_clause)).
Qed.
Print Assumptions shower_fractions.

(* ================= cross sections ===================================================== *)
Definition sigma_pos_ctw_stmt : Prop :=
  forall s, cc_or_nc (Inter_kind s) -> neutrino (Inter_pid s) ->
  exists sigma tot, CTW_cross_section s = Some sigma /\ CTW_total_cross_section s = Some tot /\ 0 < sigma /\ 0 < tot.

Definition sigma_pos_gqrs_stmt : Prop :=
  forall s, cc_or_nc (Inter_kind s) -> neutrino (Inter_pid s) ->
  exists sigma tot, GQRS_cross_section s = Some sigma /\ GQRS_total_cross_section s = Some tot /\ 0 < sigma /\ 0 < tot.

(* strictly increasing with energy on 1e3..1e12 GeV (same particle type and interaction type) *)
Definition sigma_increasing_ctw_stmt : Prop :=
  forall s1 s2 x1 x2 t1 t2,
  cc_or_nc (Inter_kind s1) -> neutrino (Inter_pid s1) ->
  Inter_kind s2 = Inter_kind s1 -> Inter_pid s2 = Inter_pid s1 ->
  10 ^ 3 <= Inter_energy s1 -> Inter_energy s1 < Inter_energy s2 -> Inter_energy s2 <= 10 ^ 12 ->
  CTW_cross_section s1 = Some x1 -> CTW_cross_section s2 = Some x2 ->
  CTW_total_cross_section s1 = Some t1 -> CTW_total_cross_section s2 = Some t2 ->
  x1 < x2 /\ t1 < t2.

Definition sigma_increasing_gqrs_stmt : Prop :=
  forall s1 s2 x1 x2 t1 t2,
  cc_or_nc (Inter_kind s1) -> neutrino (Inter_pid s1) ->
  Inter_kind s2 = Inter_kind s1 -> Inter_pid s2 = Inter_pid s1 ->
  0 < Inter_energy s1 -> Inter_energy s1 < Inter_energy s2 ->
  GQRS_cross_section s1 = Some x1 -> GQRS_cross_section s2 = Some x2 ->
  GQRS_total_cross_section s1 = Some t1 -> GQRS_total_cross_section s2 = Some t2 ->
  x1 < x2 /\ t1 < t2.

(* CC + NC = total, for the default model (NeutrinoInteraction = CTWInteraction) *)
Definition ctw_total_is_sum_stmt : Prop :=
  forall s, neutrino (Inter_pid s) ->
  default_model_is_CTW = true /\
  exists cc nc,
    Default_cross_section (mkInter Type_cc (Inter_pid s) (Inter_energy s) (Inter_inelasticity s) (Inter_include_secondaries s)) = Some cc /\
    Default_cross_section (mkInter Type_nc (Inter_pid s) (Inter_energy s) (Inter_inelasticity s) (Inter_include_secondaries s)) = Some nc /\
    Default_total_cross_section s = Some (cc + nc).

(* design-time note re-verified: the GQRS constants satisfy the sum rule for neutrinos only *)
Definition gqrs_sum_rule_only_for_neutrinos_stmt : Prop :=
  forall E,
  gqrs_sigma 1 12 E + gqrs_sigma 2 12 E = gqrs_total_sigma 12 E /\
  gqrs_sigma 1 (-12) E + gqrs_sigma 2 (-12) E - gqrs_total_sigma (-12) E = 1e-38 * Rpower E 0.363.

(* L = 1 / (N_A * sigma) *)
Definition length_is_inverse_stmt : Prop :=
  forall s,
  CTW_interaction_length s = option_map (fun sigma => 1 / (avogadro * sigma)) (CTW_cross_section s) /\
  CTW_total_interaction_length s = option_map (fun sigma => 1 / (avogadro * sigma)) (CTW_total_cross_section s) /\
  GQRS_interaction_length s = option_map (fun sigma => 1 / (avogadro * sigma)) (GQRS_cross_section s) /\
  GQRS_total_interaction_length s = option_map (fun sigma => 1 / (avogadro * sigma)) (GQRS_total_cross_section s) /\
  avogadro = 6.02214076e23.

Theorem cross_sections_and_lengths :
  sigma_pos_ctw_stmt /\
  sigma_pos_gqrs_stmt /\
  sigma_increasing_ctw_stmt /\
  sigma_increasing_gqrs_stmt /\
  ctw_total_is_sum_stmt /\
  gqrs_sum_rule_only_for_neutrinos_stmt /\
  length_is_inverse_stmt.
Proof.
  exact (conj sigma_pos_ctw_clause (conj sigma_pos_gqrs_clause (conj sigma_increasing_ctw_clause (conj sigma_increasing_gqrs_clause (conj ctw_total_is_sum_clause (conj gqrs_sum_rule_only_for_neutrinos_clause length_is_inverse_clause)))))).
Qed.
Print Assumptions cross_sections_and_lengths.

(* ================= event tree ========================================================= *)
(* for ALL root lists without repetition and ALL add_children sequences whose accepted calls
   add particles new to the event (fresh Particle objects); calls with a parent that is not in
   the event are part of the sequences (they raise and change nothing). *)
Theorem len_children_inv : forall roots ops, NoDup roots -> FreshSeq (init roots) ops ->
  let e := run roots ops in
  length (ev_children e) = length (ev_all e) /\
  (forall i j, In j (nth i (ev_children e) []) -> (j < length (ev_all e))%nat).
Proof. exact len_children_inv_lemma. Qed.
Print Assumptions len_children_inv.

Theorem child_index_unique : forall roots ops, NoDup roots -> FreshSeq (init roots) ops ->
  let e := run roots ops in
  (forall i, NoDup (nth i (ev_children e) [])) /\
  (forall i j k, In k (nth i (ev_children e) []) -> In k (nth j (ev_children e) []) -> i = j).
Proof. exact child_index_unique_lemma. Qed.
Print Assumptions child_index_unique.

Theorem iter_each_once : forall roots ops, NoDup roots -> FreshSeq (init roots) ops ->
  let e := run roots ops in
  iter e = roots ++ added (init roots) ops /\
  NoDup (iter e) /\
  (forall p, In p (iter e) -> count_occ Nat.eq_dec (iter e) p = 1%nat) /\
  len e = length (iter e).
Proof. exact iter_each_once_lemma. Qed.
Print Assumptions iter_each_once.

Theorem parent_children_consistent : forall roots ops, NoDup roots -> FreshSeq (init roots) ops ->
  let e := run roots ops in
  forall p q, In p (iter e) -> In q (iter e) ->
  exists cs r, get_children e q = Some cs /\ get_parent e p = Some r /\
               (In p cs <-> r = Some q) /\
               (r = None <-> In p roots) /\
               (forall c, In c cs -> In c (iter e)) /\
               (forall q', r = Some q' -> In q' (iter e)).
Proof. exact parent_children_consistent_lemma. Qed.
Print Assumptions parent_children_consistent.

Theorem levels_partition : forall roots ops, NoDup roots -> FreshSeq (init roots) ops ->
  let e := run roots ops in
  (forall z, (z <= 0)%Z -> get_from_level e z = Some roots) /\
  (forall z, exists l, get_from_level e z = Some l /\ NoDup l /\ (forall p, In p l -> In p (iter e))) /\
  (forall p, In p (iter e) ->
     exists n : nat,
       (exists l, get_from_level e (Z.of_nat n) = Some l /\ In p l) /\
       (forall m l', get_from_level e (Z.of_nat m) = Some l' -> In p l' -> m = n)).
Proof. exact levels_partition_lemma. Qed.
Print Assumptions levels_partition.

Theorem absent_particles_raise : forall roots ops,
  let e := run roots ops in
  forall p, ~ In p (iter e) ->
  get_children e p = None /\ get_parent e p = None /\ add_children e p [] = None.
Proof. exact absent_queries_raise_lemma. Qed.
Print Assumptions absent_particles_raise.

(* read operations are the identity on the state: after an interleaved history of reads and
   add_children calls the state is the one reached by the add_children calls alone (so all the
   theorems above hold after every operation), and every answer is the query in the current state *)
Theorem reads_are_identity_on_state :
  (forall e q t, state_after e (HAsk q :: t) = state_after e t) /\
  (forall roots h, state_after (init roots) h = run roots (adds_of h)) /\
  (forall e h1 q h2, nth (length h1) (run_history e (h1 ++ HAsk q :: h2)) AErr = ask (state_after e h1) q) /\
  (forall e h, length (run_history e h) = length h) /\
  (* the in-Coq comparison of answers used by the correspondence check is sound *)
  (forall xs ys k, first_mismatch xs ys k = None -> xs = ys).
Proof.
  destruct reads_identity_lemma as (A & B & C & D).
  exact (conj A (conj B (conj C (conj D first_mismatch_none)))).
Qed.
Print Assumptions reads_are_identity_on_state.

(* without freshness "exactly once" is false of the faithful model (documented limit) *)
Theorem iter_twice_when_not_fresh_refuted :
  exists roots ops, NoDup roots /\ ~ NoDup (iter (run roots ops)).
Proof.
  exists [0%nat], [Add 0 [1%nat]; Add 0 [1%nat]]. split; [repeat constructor; simpl; tauto|].
  intros H. vm_compute in H. inversion H as [|? ? ? H2]; subst. inversion H2 as [|? ? H3 _]; subst.
  apply H3. left; reflexivity.
Qed.
Print Assumptions iter_twice_when_not_fresh_refuted.
