(* C14, formula half, part 1: the real-analysis facts (no generated definitions here):
   inverse-CDF sampling of the CTW inelasticity densities, power/geometric mean bounds,
   monotonicity of the CTW cross-section polynomial, log10 of the energy range. *)
From Coq Require Import Reals List Bool ZArith Lra Lia Psatz.
From Coquelicot Require Import Coquelicot.
From PyrexLib Require Import RealPrims.
Open Scope R_scope.

(* ------------------------------------------------------------------ log10 of the energy range *)
Lemma ln10_pos : 0 < ln 10.
Proof. rewrite <- ln_1. apply ln_increasing; lra. Qed.

Lemma log10_pow10 (n : nat) : log10 (10 ^ n) = INR n.
Proof.
  unfold log10. rewrite ln_pow by lra. field. pose proof ln10_pos. lra.
Qed.

Lemma log10_le a b : 0 < a -> a <= b -> log10 a <= log10 b.
Proof.
  intros Ha Hab. unfold log10. apply Rmult_le_compat_r.
  - left. apply Rinv_0_lt_compat. apply ln10_pos.
  - destruct Hab as [H|H]; [left; apply ln_increasing; assumption|subst; right; reflexivity].
Qed.

Lemma log10_lt a b : 0 < a -> a < b -> log10 a < log10 b.
Proof.
  intros Ha Hab. unfold log10. apply Rmult_lt_compat_r.
  - apply Rinv_0_lt_compat. apply ln10_pos.
  - apply ln_increasing; assumption.
Qed.

Lemma energy_range E : 10 ^ 3 <= E <= 10 ^ 12 -> 3 <= log10 E <= 12.
Proof.
  intros [H1 H2]. assert (0 < 10 ^ 3) by (apply pow_lt; lra).
  split.
  - replace 3 with (INR 3) by (simpl; lra). rewrite <- log10_pow10. apply log10_le; lra.
  - replace 12 with (INR 12) by (simpl; lra). rewrite <- log10_pow10. apply log10_le; lra.
Qed.

(* ------------------------------------------------------------------ Rpower facts *)
Lemma Rpower_pos x y : 0 < Rpower x y.
Proof. unfold Rpower. apply exp_pos. Qed.

Lemma Rpower_inv_exponent x p : 0 < x -> p <> 0 -> Rpower (Rpower x p) (1 / p) = x.
Proof.
  intros Hx Hp. rewrite Rpower_mult. replace (p * (1 / p)) with 1 by (field; assumption).
  apply Rpower_1. assumption.
Qed.

Lemma Rpower_inv_exponent' t p : 0 < t -> p <> 0 -> Rpower (Rpower t (1 / p)) p = t.
Proof.
  intros Ht Hp. rewrite Rpower_mult. replace (1 / p * p) with 1 by (field; assumption).
  apply Rpower_1. assumption.
Qed.

(* ------------------------------------------------------------------ CTW 2011, eqs. 14-18 *)
(* low-y region [0, 1e-3]: density proportional to (y - c1)^(-1/c2);
   high-y region [1e-3, 1]: density proportional to 1/(y - c1). *)
Definition low_sample (c1 c2 r : R) : R :=
  c1 + Rpower (r * Rpower (1e-3 - c1) (1 - 1 / c2) + (1 - r) * Rpower (0 - c1) (1 - 1 / c2)) (c2 / (c2 - 1)).
Definition high_sample (c1 r : R) : R :=
  Rpower (1 - c1) r / Rpower (1e-3 - c1) (r - 1) + c1.

(* the cumulative distribution functions of the two published densities *)
Definition low_cdf (c1 c2 y : R) : R :=
  (Rpower (y - c1) (1 - 1 / c2) - Rpower (0 - c1) (1 - 1 / c2)) /
  (Rpower (1e-3 - c1) (1 - 1 / c2) - Rpower (0 - c1) (1 - 1 / c2)).
Definition high_cdf (c1 y : R) : R :=
  (ln (y - c1) - ln (1e-3 - c1)) / (ln (1 - c1) - ln (1e-3 - c1)).

Section LowY.
  Variables c1 c2 : R.
  Hypothesis Hc1 : c1 < 0.
  Hypothesis Hc2 : 1 < c2.
  Let p := 1 - 1 / c2.

  Lemma p_pos : 0 < p.
  Proof.
    unfold p. assert (H : / c2 < / 1) by (apply Rinv_lt_contravar; lra). rewrite Rinv_1 in H.
    unfold Rdiv. lra.
  Qed.

  Lemma exponent_inverse : c2 / (c2 - 1) = 1 / p.
  Proof. unfold p. field. split; lra. Qed.

  Lemma low_powers_ordered : Rpower (0 - c1) p < Rpower (1e-3 - c1) p.
  Proof. apply Rlt_Rpower_l; [apply p_pos|lra]. Qed.

  Lemma low_sample_bounds r : 0 <= r <= 1 -> 0 <= low_sample c1 c2 r <= 1e-3.
  Proof.
    intros Hr. unfold low_sample. fold p. rewrite exponent_inverse.
    pose proof p_pos as Hp. pose proof low_powers_ordered as Ho.
    set (a := Rpower (1e-3 - c1) p) in *. set (b := Rpower (0 - c1) p) in *.
    assert (Hb : 0 < b) by apply Rpower_pos.
    set (t := r * a + (1 - r) * b).
    assert (Ht : b <= t <= a) by (unfold t; split; nra).
    assert (Hip : 0 <= 1 / p). { unfold Rdiv. rewrite Rmult_1_l. left. apply Rinv_0_lt_compat. assumption. }
    assert (L : Rpower b (1 / p) <= Rpower t (1 / p)) by (apply Rle_Rpower_l; lra).
    assert (U : Rpower t (1 / p) <= Rpower a (1 / p)) by (apply Rle_Rpower_l; lra).
    unfold a, b in L, U. rewrite Rpower_inv_exponent in L, U by lra. lra.
  Qed.

  (* F(sample r) = r : the sampler is the inverse of the cumulative distribution *)
  Lemma low_sample_inverse_cdf r : 0 <= r <= 1 -> low_cdf c1 c2 (low_sample c1 c2 r) = r.
  Proof.
    intros Hr. unfold low_cdf, low_sample. fold p. rewrite exponent_inverse.
    pose proof p_pos as Hp. pose proof low_powers_ordered as Ho.
    set (a := Rpower (1e-3 - c1) p) in *. set (b := Rpower (0 - c1) p) in *.
    assert (Hb : 0 < b) by apply Rpower_pos.
    set (t := r * a + (1 - r) * b).
    assert (Ht : 0 < t) by (unfold t; nra).
    replace (c1 + Rpower t (1 / p) - c1) with (Rpower t (1 / p)) by ring.
    rewrite Rpower_inv_exponent' by lra. unfold t. field. lra.
  Qed.

  Lemma low_cdf_normalised : low_cdf c1 c2 0 = 0 /\ low_cdf c1 c2 1e-3 = 1.
  Proof.
    pose proof low_powers_ordered as Ho. unfold low_cdf. fold p. split; field; lra.
  Qed.

  (* ... and it is the integral of the published density (y - c1)^(-1/c2), normalised *)
  Lemma low_cdf_derivative y : c1 < y ->
    is_derive (low_cdf c1 c2) y
      (Rpower (y - c1) (- (1 / c2)) * (p / (Rpower (1e-3 - c1) p - Rpower (0 - c1) p))).
  Proof.
    intros Hy. pose proof low_powers_ordered as Ho. pose proof p_pos as Hp.
    unfold low_cdf. fold p. unfold Rpower at 1.
    auto_derive.
    - lra.
    - replace (y - c1) with (y + - c1) by ring. set (L := ln (y + - c1)).
      replace (/ (y + - c1)) with (exp (- L)) by (unfold L; rewrite exp_Ropp, exp_ln by lra; reflexivity).
      replace (Rpower (y + - c1) (- (1 / c2))) with (exp (p * L) * exp (- L)).
      + field. lra.
      + unfold Rpower. fold L. rewrite <- exp_plus. f_equal. unfold p. field. lra.
  Qed.
End LowY.

Section HighY.
  Variable c1 : R.
  Hypothesis Hc1 : c1 < 0.

  Lemma high_logs_ordered : ln (1e-3 - c1) < ln (1 - c1).
  Proof. apply ln_increasing; lra. Qed.

  Lemma high_sample_log r :
    ln (high_sample c1 r - c1) = r * ln (1 - c1) + (1 - r) * ln (1e-3 - c1).
  Proof.
    unfold high_sample. replace (Rpower (1 - c1) r / Rpower (1e-3 - c1) (r - 1) + c1 - c1)
      with (Rpower (1 - c1) r / Rpower (1e-3 - c1) (r - 1)) by ring.
    rewrite ln_div by apply Rpower_pos. rewrite !ln_Rpower. ring.
  Qed.

  Lemma high_sample_bounds r : 0 <= r <= 1 -> 1e-3 <= high_sample c1 r <= 1.
  Proof.
    intros Hr. pose proof high_logs_ordered as Ho. pose proof (high_sample_log r) as HL.
    assert (Hpos : 0 < high_sample c1 r - c1).
    { unfold high_sample. replace (Rpower (1 - c1) r / Rpower (1e-3 - c1) (r - 1) + c1 - c1)
        with (Rpower (1 - c1) r / Rpower (1e-3 - c1) (r - 1)) by ring.
      apply Rdiv_lt_0_compat; apply Rpower_pos. }
    assert (L1 : ln (1e-3 - c1) <= ln (high_sample c1 r - c1)) by (rewrite HL; nra).
    assert (L2 : ln (high_sample c1 r - c1) <= ln (1 - c1)) by (rewrite HL; nra).
    split.
    - destruct L1 as [L1|L1]; [apply ln_lt_inv in L1; lra|apply ln_inv in L1; lra].
    - destruct L2 as [L2|L2]; [apply ln_lt_inv in L2; lra|apply ln_inv in L2; lra].
  Qed.

  Lemma high_sample_inverse_cdf r : high_cdf c1 (high_sample c1 r) = r.
  Proof.
    pose proof high_logs_ordered as Ho. unfold high_cdf. rewrite high_sample_log. field. lra.
  Qed.

  Lemma high_cdf_normalised : high_cdf c1 1e-3 = 0 /\ high_cdf c1 1 = 1.
  Proof. pose proof high_logs_ordered as Ho. unfold high_cdf. split; field; lra. Qed.

  Lemma high_cdf_derivative y : c1 < y ->
    is_derive (high_cdf c1) y (1 / (y - c1) * (1 / (ln (1 - c1) - ln (1e-3 - c1)))).
  Proof.
    intros Hy. pose proof high_logs_ordered as Ho. unfold high_cdf. auto_derive.
    - lra.
    - field. split; lra.
  Qed.
End HighY.


(* ------------------------------------------------------------------ CTW 2011, eq. 7 / table III *)
(* log10(sigma / cm^2) = c1 + c2 L + c3 L^2 + c4 / L  with  L = ln(eps - c0), eps = log10(E/GeV) *)
Definition sigma_power (c0 c1 c2 c3 c4 eps : R) : R :=
  c1 + c2 * ln (eps - c0) + c3 * ln (eps - c0) ^ 2 + c4 / ln (eps - c0).

Lemma poly_step c1 c2 c3 c4 L1 L2 : 0 < L1 -> 0 < L2 ->
  (c1 + c2 * L2 + c3 * L2 ^ 2 + c4 / L2) - (c1 + c2 * L1 + c3 * L1 ^ 2 + c4 / L1)
  = (L2 - L1) * (c2 + c3 * (L1 + L2) - c4 / (L1 * L2)).
Proof. intros; field; lra. Qed.

(* c2 + c3 (L1+L2) + k/(L1 L2) > 0 for ALL positive L1, L2 as soon as the cubic
   c3 s^3 + c2 s^2 + 4k is positive for s > 0  (L1 L2 <= ((L1+L2)/2)^2) *)
Lemma bracket_pos c2 c3 k L1 L2 : 0 < L1 -> 0 < L2 -> 0 < k ->
  (forall s, 0 < s -> 0 < c3 * s ^ 3 + c2 * s ^ 2 + 4 * k) ->
  0 < c2 + c3 * (L1 + L2) + k / (L1 * L2).
Proof.
  intros H1 H2 Hk Hc. assert (Hs : 0 < L1 + L2) by lra. pose proof (Hc (L1 + L2) Hs) as H.
  set (s := L1 + L2) in *. set (P := L1 * L2).
  assert (HP : 0 < P) by (unfold P; nra).
  assert (HPs : 4 * P <= s ^ 2) by (unfold P, s; pose proof (pow2_ge_0 (L1 - L2)); nra).
  assert (G : 0 < (c2 + c3 * s) * P + k).
  { destruct (Rle_dec 0 (c2 + c3 * s)); [nra|]. nra. }
  replace (c2 + c3 * s + k / P) with (((c2 + c3 * s) * P + k) / P) by (field; lra).
  apply Rdiv_lt_0_compat; assumption.
Qed.

Lemma sigma_power_increasing_gen c0 c1 c2 c3 c4 :
  c0 < 2 -> c4 < 0 ->
  (forall s, 0 < s -> 0 < c3 * s ^ 3 + c2 * s ^ 2 + 4 * - c4) ->
  forall e1 e2, 3 <= e1 -> e1 < e2 ->
  sigma_power c0 c1 c2 c3 c4 e1 < sigma_power c0 c1 c2 c3 c4 e2.
Proof.
  intros Hc0 Hk Hcub e1 e2 H1 H12. unfold sigma_power.
  assert (B1 : 0 < ln (e1 - c0)) by (rewrite <- ln_1; apply ln_increasing; lra).
  assert (Hlt : ln (e1 - c0) < ln (e2 - c0)) by (apply ln_increasing; lra).
  set (L1 := ln (e1 - c0)) in *. set (L2 := ln (e2 - c0)) in *.
  apply Rminus_gt_0_lt. rewrite poly_step by lra.
  apply Rmult_lt_0_compat; [lra|].
  replace (c2 + c3 * (L1 + L2) - c4 / (L1 * L2)) with (c2 + c3 * (L1 + L2) + - c4 / (L1 * L2)) by (field; lra).
  apply bracket_pos; try assumption; lra.
Qed.

(* the four published parameter sets *)
Lemma sigma_power_increasing_nu_cc e1 e2 : 3 <= e1 -> e1 < e2 -> e2 <= 12 ->
  sigma_power (-1.826) (-17.31) (-6.406) 1.431 (-17.91) e1 < sigma_power (-1.826) (-17.31) (-6.406) 1.431 (-17.91) e2.
Proof.
  intros H1 H12 _. apply (sigma_power_increasing_gen (-1.826) (-17.31) (-6.406) 1.431 (-17.91)); try lra.
  intros s Hs. destruct (Rle_dec s 3.3); [nra|]. destruct (Rle_dec s 4.5); nra.
Qed.
Lemma sigma_power_increasing_nu_nc e1 e2 : 3 <= e1 -> e1 < e2 -> e2 <= 12 ->
  sigma_power (-1.826) (-17.31) (-6.448) 1.431 (-18.61) e1 < sigma_power (-1.826) (-17.31) (-6.448) 1.431 (-18.61) e2.
Proof.
  intros H1 H12 _. apply (sigma_power_increasing_gen (-1.826) (-17.31) (-6.448) 1.431 (-18.61)); try lra.
  intros s Hs. destruct (Rle_dec s 3.3); [nra|]. destruct (Rle_dec s 4.6); nra.
Qed.
Lemma sigma_power_increasing_nubar_cc e1 e2 : 3 <= e1 -> e1 < e2 -> e2 <= 12 ->
  sigma_power (-1.033) (-15.95) (-7.247) 1.569 (-17.72) e1 < sigma_power (-1.033) (-15.95) (-7.247) 1.569 (-17.72) e2.
Proof.
  intros H1 H12 _. apply (sigma_power_increasing_gen (-1.033) (-15.95) (-7.247) 1.569 (-17.72)); try lra.
  intros s Hs. destruct (Rle_dec s 3.1); [nra|]. destruct (Rle_dec s 4.7); nra.
Qed.
Lemma sigma_power_increasing_nubar_nc e1 e2 : 3 <= e1 -> e1 < e2 -> e2 <= 12 ->
  sigma_power (-1.033) (-15.95) (-7.296) 1.569 (-18.30) e1 < sigma_power (-1.033) (-15.95) (-7.296) 1.569 (-18.30) e2.
Proof.
  intros H1 H12 _. apply (sigma_power_increasing_gen (-1.033) (-15.95) (-7.296) 1.569 (-18.30)); try lra.
  intros s Hs. destruct (Rle_dec s 3.1); [nra|]. destruct (Rle_dec s 4.7); nra.
Qed.

Lemma pow10_increasing a b : a < b -> Rpower 10 a < Rpower 10 b.
Proof. intros. apply Rpower_lt; lra. Qed.

(* CTW 2011, eq. 8: neutral-current fraction *)
Definition nc_frac (eps : R) : R := 0.252162 + 0.0256 * ln (eps - 1.76).
Lemma nc_frac_is_probability eps : 3 <= eps <= 12 -> 0 < nc_frac eps < 1.
Proof.
  intros He. unfold nc_frac.
  assert (L0 : 0 < ln (eps - 1.76)) by (rewrite <- ln_1; apply ln_increasing; lra).
  assert (L1 : ln (eps - 1.76) < eps - 1.76 - 1).
  { pose proof (exp_ineq1 (eps - 1.76 - 1) ltac:(lra)) as H.
    rewrite <- (ln_exp (eps - 1.76 - 1)). apply ln_increasing; lra. }
  split; nra.
Qed.

(* GQRS: y = (-ln(1/e + u (1 - 1/e)))^2.5 *)
Lemma gqrs_y_bounds u : 0 <= u < 1 ->
  0 < Rpower (- ln (1 / exp 1 + u * (1 - 1 / exp 1))) 2.5 <= 1.
Proof.
  intros Hu. split; [apply Rpower_pos|].
  assert (H2 : 2 < exp 1) by (pose proof (exp_ineq1 1 ltac:(lra)); lra).
  assert (He : 0 < / exp 1 < 1).
  { split; [apply Rinv_0_lt_compat; lra|]. assert (H : / exp 1 < / 1) by (apply Rinv_lt_contravar; lra).
    rewrite Rinv_1 in H. exact H. }
  unfold Rdiv. rewrite Rmult_1_l.
  set (x := / exp 1 + u * (1 - / exp 1)).
  assert (Hx : / exp 1 <= x < 1) by (unfold x; split; nra).
  assert (Hl1 : ln x < 0) by (rewrite <- ln_1; apply ln_increasing; lra).
  assert (Hl2 : -1 <= ln x).
  { replace (-1) with (ln (/ exp 1)) by (rewrite ln_Rinv by apply exp_pos; rewrite ln_exp; reflexivity).
    destruct Hx as [[Hx|Hx] _]; [left; apply ln_increasing; lra|rewrite Hx; right; reflexivity]. }
  apply Rle_trans with (Rpower 1 2.5).
  - apply Rle_Rpower_l; lra.
  - right. unfold Rpower. rewrite ln_1, Rmult_0_r. apply exp_0.
Qed.
