(* Names that exist in the installed libraries but NOT throughout the range declared in
   setup.py (numpy>=1.17, scipy>=1.4, h5py>=3.0, python>=3.6): using one of them breaks
   the package for some supported version even though it resolves here.  Hand-written
   from the libraries' release notes; necessarily incomplete (best effort, see DESIGN). *)
From Coq Require Import String List Bool.
Import ListNotations. Open Scope string_scope.

Definition restricted : list (list string) := [
  (* added after numpy 1.17 *)
  ["numpy"; "trapezoid"]; ["numpy"; "concat"]; ["numpy"; "astype"]; ["numpy"; "cumulative_sum"];
  ["numpy"; "cumulative_prod"]; ["numpy"; "unstack"]; ["numpy"; "matrix_transpose"]; ["numpy"; "vecdot"];
  ["numpy"; "matvec"]; ["numpy"; "vecmat"]; ["numpy"; "pow"]; ["numpy"; "acos"]; ["numpy"; "asin"];
  ["numpy"; "atan"]; ["numpy"; "atan2"]; ["numpy"; "acosh"]; ["numpy"; "asinh"]; ["numpy"; "atanh"];
  ["numpy"; "bitwise_count"]; ["numpy"; "bitwise_invert"]; ["numpy"; "bitwise_left_shift"];
  ["numpy"; "bitwise_right_shift"]; ["numpy"; "permute_dims"]; ["numpy"; "isdtype"]; ["numpy"; "long"];
  ["numpy"; "ulong"]; ["numpy"; "unique_all"]; ["numpy"; "unique_counts"]; ["numpy"; "unique_inverse"];
  ["numpy"; "unique_values"]; ["numpy"; "exceptions"]; ["numpy"; "dtypes"]; ["numpy"; "strings"];
  ["numpy"; "show_runtime"]; ["numpy"; "from_dlpack"]; ["numpy"; "broadcast_shapes"];
  ["numpy"; "typing"]; ["numpy"; "random"; "Generator"; "permuted"];
  ["numpy"; "lib"; "array_utils"]; ["numpy"; "lib"; "introspect"];
  (* added after scipy 1.4 *)
  ["scipy"; "integrate"; "simpson"]; ["scipy"; "integrate"; "trapezoid"];
  ["scipy"; "integrate"; "cumulative_trapezoid"]; ["scipy"; "integrate"; "cumulative_simpson"];
  ["scipy"; "integrate"; "qmc_quad"]; ["scipy"; "integrate"; "tanhsinh"]; ["scipy"; "integrate"; "nsum"];
  ["scipy"; "signal"; "windows"; "taylor"]; ["scipy"; "signal"; "ShortTimeFFT"];
  ["scipy"; "signal"; "czt"]; ["scipy"; "signal"; "zoom_fft"]; ["scipy"; "signal"; "gammatone"];
  ["scipy"; "signal"; "envelope"]; ["scipy"; "signal"; "find_peaks_cwt_new"];
  ["scipy"; "interpolate"; "RBFInterpolator"]; ["scipy"; "interpolate"; "make_smoothing_spline"];
  ["scipy"; "interpolate"; "AAA"]; ["scipy"; "interpolate"; "make_splrep"];
  ["scipy"; "optimize"; "milp"]; ["scipy"; "optimize"; "direct"]; ["scipy"; "optimize"; "elementwise"];
  ["scipy"; "stats"; "qmc"]; ["scipy"; "differentiate"]; ["scipy"; "datasets"];
  ["scipy"; "fft"; "next_fast_len_real"]; ["scipy"; "fft"; "prev_fast_len"];
  ["scipy"; "special"; "log_wright_bessel"]; ["scipy"; "special"; "softplus"];
  (* added after python 3.6 *)
  ["math"; "prod"]; ["math"; "dist"]; ["math"; "isqrt"]; ["math"; "comb"]; ["math"; "perm"];
  ["math"; "lcm"]; ["math"; "nextafter"]; ["math"; "ulp"]; ["math"; "cbrt"]; ["math"; "exp2"];
  ["math"; "sumprod"]; ["math"; "fma"];
  ["functools"; "cache"]; ["functools"; "cached_property"]; ["functools"; "singledispatchmethod"];
  ["importlib"; "metadata"]; ["importlib"; "resources"; "files"]; ["importlib"; "resources"; "as_file"];
  ["dataclasses"]; ["zoneinfo"]; ["graphlib"]; ["tomllib"]; ["contextvars"];
  ["itertools"; "pairwise"]; ["itertools"; "batched"]; ["statistics"; "fmean"]; ["statistics"; "geometric_mean"];
  ["statistics"; "correlation"]; ["statistics"; "covariance"]; ["statistics"; "linear_regression"];
  ["time"; "time_ns"]; ["time"; "perf_counter_ns"]; ["time"; "monotonic_ns"];
  ["datetime"; "UTC"]; ["datetime"; "datetime"; "fromisoformat"];
  ["os"; "add_dll_directory"]; ["shlex"; "join"]; ["typing"; "Literal"]; ["typing"; "Protocol"];
  ["typing"; "Final"]; ["typing"; "TypedDict"]; ["typing"; "Annotated"]; ["typing"; "Self"];
  ["collections"; "abc"; "Buffer"]; ["inspect"; "get_annotations"]; ["contextlib"; "nullcontext"];
  ["contextlib"; "chdir"]; ["asyncio"; "run"]; ["random"; "randbytes"]; ["random"; "binomialvariate"]
].

(* Method / attribute names that were removed from numpy arrays, h5py objects or builtin
   types somewhere inside the declared range; flagged when used on a value of statically
   unknown type and not defined by pyrex itself (heuristic, name-based). *)
Definition removed_methods : list string := [
  "tostring"; "newbyteorder"; "itemset"; "ptp"; "asscalar"; "tostring_rgb";
  "has_key"; "iteritems"; "itervalues"; "iterkeys"; "getargspec"; "getchildren";
  "isAlive"; "fromstring"; "encodestring"; "decodestring"; "clock"
].
Definition method_ok (m : string) : bool := negb (existsb (String.eqb m) removed_methods).

Fixpoint is_prefix (p c : list string) : bool :=
  match p, c with
  | [], _ => true
  | _ :: _, [] => false
  | a :: p', b :: c' => String.eqb a b && is_prefix p' c'
  end.

Definition unrestricted (c : list string) : bool :=
  negb (existsb (fun p => is_prefix p c) restricted).
