(* C16: ice models self-consistent (index, inverse, gradient, ranges, attenuation, layered
   dispatch).  Statements only; the definitions AntarcticIce_* / ArasimIce_* / GreenlandIce_* /
   UniformIce_* are regenerated from pyrex/ice_model.py on every run (Gen/Gen_ice.v). *)
From Coq Require Import Reals List Bool.
From Coquelicot Require Import Coquelicot.
From PyrexLib Require Import RealPrims.
From PyrexGen Require Import Gen_ice.
From PyrexModel Require Import LayeredIceModel.
From PyrexProofs Require Import C16_proofs.
Import ListNotations.
Open Scope R_scope.

(* wf s := 0 < a /\ 0 < k /\ lo <= hi;  profile s z := n0 - k exp(a z) *)

(* --- declared indices outside the valid range, profile inside ------------------------- *)
Theorem antarctic_index_regions : forall s z, wf s ->
  (z < lo s -> AntarcticIce_index s z = decl_below s) /\
  (hi s < z -> AntarcticIce_index s z = decl_above s) /\
  (lo s <= z <= hi s -> AntarcticIce_index s z = profile s z).
Proof. exact antarctic_index_regions_lemma. Qed.
Print Assumptions antarctic_index_regions.

Theorem arasim_index_regions : forall s z, wf s ->
  (z < lo s -> ArasimIce_index s z = decl_below s) /\
  (hi s < z -> ArasimIce_index s z = decl_above s) /\
  (lo s <= z <= hi s -> ArasimIce_index s z = profile s z).
Proof. exact arasim_index_regions_lemma. Qed.
Print Assumptions arasim_index_regions.

Theorem greenland_index_regions : forall s z, wf s ->
  (z < lo s -> GreenlandIce_index s z = decl_below s) /\
  (hi s < z -> GreenlandIce_index s z = decl_above s) /\
  (lo s <= z <= hi s -> GreenlandIce_index s z = profile s z).
Proof. exact greenland_index_regions_lemma. Qed.
Print Assumptions greenland_index_regions.

Theorem uniform_index_regions : forall s z, ulo s <= uhi s ->
  UniformIce_index s z =
    if Rltb z (ulo s) then match UIce_index_below s with Some v => v | None => UIce_n s end
    else if Rgtb z (uhi s) then match UIce_index_above s with Some v => v | None => UIce_n s end
    else UIce_n s.
Proof. exact uni_index_spec. Qed.
Print Assumptions uniform_index_regions.

(* --- the index strictly increases with depth inside the range --------------------------- *)
Theorem antarctic_index_increases_with_depth : forall s z1 z2,
  wf s -> lo s <= z1 -> z1 < z2 -> z2 <= hi s -> AntarcticIce_index s z2 < AntarcticIce_index s z1.
Proof. exact (gen_increasing_with_depth AntarcticIce_index ant_inside). Qed.
Print Assumptions antarctic_index_increases_with_depth.
Theorem arasim_index_increases_with_depth : forall s z1 z2,
  wf s -> lo s <= z1 -> z1 < z2 -> z2 <= hi s -> ArasimIce_index s z2 < ArasimIce_index s z1.
Proof. exact (gen_increasing_with_depth ArasimIce_index ara_inside). Qed.
Print Assumptions arasim_index_increases_with_depth.
Theorem greenland_index_increases_with_depth : forall s z1 z2,
  wf s -> lo s <= z1 -> z1 < z2 -> z2 <= hi s -> GreenlandIce_index s z2 < GreenlandIce_index s z1.
Proof. exact (gen_increasing_with_depth GreenlandIce_index gre_inside). Qed.
Print Assumptions greenland_index_increases_with_depth.

(* --- depth_with_index inverts index inside the range, clamps outside --------------------- *)
Theorem antarctic_depth_with_index_inverts : forall s z,
  wf s -> lo s <= z <= hi s -> AntarcticIce_depth_with_index s (AntarcticIce_index s z) = z.
Proof. exact (gen_inverts AntarcticIce_index AntarcticIce_depth_with_index ant_inside ant_dwi). Qed.
Print Assumptions antarctic_depth_with_index_inverts.
Theorem arasim_depth_with_index_inverts : forall s z,
  wf s -> lo s <= z <= hi s -> ArasimIce_depth_with_index s (ArasimIce_index s z) = z.
Proof. exact (gen_inverts ArasimIce_index ArasimIce_depth_with_index ara_inside ara_dwi). Qed.
Print Assumptions arasim_depth_with_index_inverts.
Theorem greenland_depth_with_index_inverts : forall s z,
  wf s -> lo s <= z <= hi s -> GreenlandIce_depth_with_index s (GreenlandIce_index s z) = z.
Proof. exact (gen_inverts GreenlandIce_index GreenlandIce_depth_with_index gre_inside gre_dwi). Qed.
Print Assumptions greenland_depth_with_index_inverts.

Theorem antarctic_depth_with_index_clamps : forall s n, wf s ->
  (n < profile s (hi s) -> AntarcticIce_depth_with_index s n = hi s) /\
  (profile s (lo s) < n -> AntarcticIce_depth_with_index s n = lo s).
Proof. exact antarctic_depth_with_index_clamps_lemma. Qed.
Print Assumptions antarctic_depth_with_index_clamps.
Theorem arasim_depth_with_index_clamps : forall s n, wf s ->
  (n < profile s (hi s) -> ArasimIce_depth_with_index s n = hi s) /\
  (profile s (lo s) < n -> ArasimIce_depth_with_index s n = lo s).
Proof. exact arasim_depth_with_index_clamps_lemma. Qed.
Print Assumptions arasim_depth_with_index_clamps.
Theorem greenland_depth_with_index_clamps : forall s n, wf s ->
  (n < profile s (hi s) -> GreenlandIce_depth_with_index s n = hi s) /\
  (profile s (lo s) < n -> GreenlandIce_depth_with_index s n = lo s).
Proof. exact greenland_depth_with_index_clamps_lemma. Qed.
Print Assumptions greenland_depth_with_index_clamps.

(* every index value attained in the range is mapped to a depth in the range with that index *)
Theorem antarctic_inverse_in_range : forall s n,
  wf s -> profile s (hi s) <= n <= profile s (lo s) -> n < Ice_n0 s ->
  lo s <= AntarcticIce_depth_with_index s n <= hi s /\
  AntarcticIce_index s (AntarcticIce_depth_with_index s n) = n.
Proof. exact (gen_inverse_in_range AntarcticIce_index AntarcticIce_depth_with_index ant_inside ant_dwi). Qed.
Print Assumptions antarctic_inverse_in_range.

(* --- gradient is the depth derivative of the index -------------------------------------- *)
Theorem antarctic_gradient_is_derivative : forall s z,
  vx (AntarcticIce_gradient s z) = 0 /\ vy (AntarcticIce_gradient s z) = 0 /\
  is_derive (profile s) z (vz (AntarcticIce_gradient s z)).
Proof. exact antarctic_gradient_is_derivative_lemma. Qed.
Print Assumptions antarctic_gradient_is_derivative.
Theorem arasim_gradient_is_derivative : forall s z,
  vx (ArasimIce_gradient s z) = 0 /\ vy (ArasimIce_gradient s z) = 0 /\
  is_derive (profile s) z (vz (ArasimIce_gradient s z)).
Proof. exact arasim_gradient_is_derivative_lemma. Qed.
Print Assumptions arasim_gradient_is_derivative.
Theorem greenland_gradient_is_derivative : forall s z,
  vx (GreenlandIce_gradient s z) = 0 /\ vy (GreenlandIce_gradient s z) = 0 /\
  is_derive (profile s) z (vz (GreenlandIce_gradient s z)).
Proof. exact greenland_gradient_is_derivative_lemma. Qed.
Print Assumptions greenland_gradient_is_derivative.
Theorem uniform_gradient_zero : forall s z, UniformIce_gradient s z = (0, 0, 0).
Proof. exact uni_gradient. Qed.
Print Assumptions uniform_gradient_zero.

(* --- attenuation lengths are positive ---------------------------------------------------- *)
Theorem antarctic_attenuation_positive : forall s z f, 0 < AntarcticIce_attenuation_length s z f.
Proof. exact ant_atten_pos. Qed.
Print Assumptions antarctic_attenuation_positive.
Theorem uniform_attenuation_positive : forall s z f, 0 < UniformIce_attenuation_length s z f.
Proof. exact uni_atten_pos. Qed.
Print Assumptions uniform_attenuation_positive.
Theorem greenland_attenuation_at_least_1 : forall s z f, 1 <= GreenlandIce_attenuation_length s z f.
Proof. exact gre_atten_ge_1. Qed.
Print Assumptions greenland_attenuation_at_least_1.
(* AraSim table: only on the tabulated span (partial: outside it the code extrapolates linearly,
   which becomes non-positive below about -3171 m -- known finding) *)
Theorem arasim_attenuation_bounds_partial : forall s z f,
  72.7412 <= - z <= 2496.17 -> 221.333 <= ArasimIce_attenuation_length s z f <= 1994.67.
Proof. exact arasim_atten_bounds. Qed.
Print Assumptions arasim_attenuation_bounds_partial.

(* --- layered ice dispatches every depth to the layer that contains it --------------------- *)
Theorem layered_dispatch_sound : forall ls z l,
  connected ls -> layer_at_depth ls z = Some l ->
  In l ls /\ (l_lo l < z <= l_hi l \/ (l_lo l = z /\ l = last ls l)).
Proof. exact layer_at_depth_spec. Qed.
Print Assumptions layered_dispatch_sound.
Theorem layered_dispatch_complete : forall ls z l,
  In l ls -> l_lo l < z <= l_hi l -> exists l', layer_at_depth ls z = Some l'.
Proof. exact layer_at_depth_complete. Qed.
Print Assumptions layered_dispatch_complete.
Theorem layered_layer_unique : forall ls z l l', connected ls -> In l ls -> In l' ls ->
  l_lo l < z <= l_hi l -> l_lo l' < z <= l_hi l' -> l_lo l = l_lo l' /\ l_hi l = l_hi l'.
Proof. exact layer_unique. Qed.
Print Assumptions layered_layer_unique.

(* the dispatch of LayeredIce.index is total on connected stacks: above the top edge the index
   above, below the bottom edge the index below, and every depth in between (both edges
   included) is served by a layer -- the error branch is unreachable *)
Theorem layered_index_dispatch_total : forall l0 r z, connected (l0 :: r) ->
  (z > l_hi l0 -> index_source (l0 :: r) z = Above) /\
  (z < l_lo (last r l0) -> index_source (l0 :: r) z = Below) /\
  (l_lo (last r l0) <= z <= l_hi l0 -> exists t, index_source (l0 :: r) z = FromLayer t).
Proof. exact index_source_total. Qed.
Print Assumptions layered_index_dispatch_total.

(* non-vacuity: the shipped default parameters satisfy the hypotheses *)
Theorem default_antarctic_wf : wf default_antarctic.
Proof. exact default_wf. Qed.
Print Assumptions default_antarctic_wf.
